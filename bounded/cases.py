"""Bounded stand-in cases.  Every oracle below is written from the property text (never from the code under check).
A failure carries the concrete input, so it is its own replay: `bounded/run.py <case>` re-executes it on the real code."""
import itertools
import json
import math
import os
import random
import tempfile
import copy
from fractions import Fraction

import numpy as np


class Report:
    def __init__(self, name, tier, seed):
        self.name, self.tier, self.seed = name, tier, seed
        self.evaluations = 0
        self.signatures = set()
        self.failures = []
        self.samples = []
        self.bound = ""
        self.error = None
        self.rng = random.Random(seed)
        self.exhaustive = True

    def case(self, sig, nontrivial=True):
        self.evaluations += 1
        if nontrivial:
            self.signatures.add(sig if isinstance(sig, str) else json.dumps(sig, sort_keys=True, default=str))

    def fail(self, clause, inp, got=None, expected=None, known=None):
        # failures covered by a recorded known finding and new failures are capped separately, so that a flood of the former can
        # never crowd out one of the latter
        # ... and per clause: a property may count only some clauses of a case, so every clause keeps its own witnesses
        kept = sum(1 for f in self.failures if bool(f["known"]) == bool(known) and f["clause"] == clause)
        if kept < (10 if known else 20):
            self.failures.append({"clause": clause, "input": inp, "got": got, "expected": expected, "known": known})
        else:
            self.failures_more = getattr(self, "failures_more", 0) + 1

    def sample(self, obj):
        if len(self.samples) < 3:
            self.samples.append(obj)

    def as_dict(self):
        return {"case": self.name, "tier": self.tier, "seed": self.seed, "evaluations": self.evaluations,
                "distinct_nontrivial": len(self.signatures), "failures": self.failures,
                "failures_more": getattr(self, "failures_more", 0), "samples": self.samples, "bound": self.bound,
                "error": self.error, "exhaustive": self.exhaustive}


def thorough(rep):
    return rep.tier == "thorough"


class TimeLimit:
    """a real call that does not return within the limit is a failed case (the real code loops on a small input)"""

    class Expired(Exception):
        pass

    def __init__(self, seconds):
        self.seconds = seconds

    def __enter__(self):
        import signal

        def handler(signum, frame):
            raise TimeLimit.Expired()
        self.old = signal.signal(signal.SIGALRM, handler)
        signal.setitimer(signal.ITIMER_REAL, self.seconds)

    def __exit__(self, *a):
        import signal
        signal.setitimer(signal.ITIMER_REAL, 0)
        signal.signal(signal.SIGALRM, self.old)
        return False


# =========================================================================================== C18: merging records

def case_merge_cvrs(rep):
    from shangrla.core.Audit import CVR
    rep.bound = "all lists of <= 3 records (<= 4 thorough) over ids {a,b}, contests {c1,c2} with 3 vote-dict shapes each, " \
                "phantom/pool in {F,T}, tally_pool in {None,0,'','p','q'} (sampled: 60000 quick)"
    votes_opts = [{}, {"c1": {"x": 1}}, {"c1": {"y": 2}}, {"c2": {"x": 1}}, {"c1": {"x": 1}, "c2": {"y": 1}}]
    tps = [None, 0, "", "p", "q"]
    recs = [(i, v, ph, po, tp) for i in "ab" for v in range(len(votes_opts)) for ph in (False, True) for po in (False, True) for tp in tps]
    nmax = 4 if thorough(rep) else 3
    space = [()]
    for n in range(1, nmax + 1):
        space = itertools.chain(space, itertools.product(recs, repeat=n))
    budget = 400000 if thorough(rep) else 60000
    allc = None
    total = sum(len(recs) ** n for n in range(0, nmax + 1))
    if total > budget:
        rep.exhaustive = False

        def gen():
            yield ()
            for r in recs:
                yield (r,)
            for _ in range(budget):
                n = rep.rng.randint(2, nmax)
                yield tuple(rep.rng.choice(recs) for _ in range(n))
        space = gen()
    for combo in space:
        lst = [CVR(id=i, votes=copy.deepcopy(votes_opts[v]), phantom=ph, pool=po, tally_pool=tp) for (i, v, ph, po, tp) in combo]
        # oracle
        exp, err = {}, False
        for (i, v, ph, po, tp) in combo:
            if i not in exp:
                exp[i] = {"votes": copy.deepcopy(votes_opts[v]), "phantom": ph, "pool": po, "tp": tp}
            else:
                e = exp[i]
                for con, d in votes_opts[v].items():
                    e["votes"][con] = copy.deepcopy(d)          # later record wins within a contest
                e["phantom"] = e["phantom"] and ph
                e["pool"] = e["pool"] or po
                if tp is not None:
                    if e["tp"] is None:
                        e["tp"] = tp
                    elif e["tp"] != tp:
                        err = True
                        break
        rep.case(combo, nontrivial=len(combo) >= 2 and len({c[0] for c in combo}) < len(combo))
        try:
            out = CVR.merge_cvrs(lst)
            raised = None
        except ValueError as ex:
            out, raised = None, "ValueError"
        except Exception as ex:
            out, raised = None, type(ex).__name__
        inp = [{"id": i, "votes": votes_opts[v], "phantom": ph, "pool": po, "tally_pool": tp} for (i, v, ph, po, tp) in combo]
        if err:
            if raised != "ValueError":
                rep.fail("conflicting tally pools raise ValueError", inp, got=raised or "no error")
            continue
        if raised:
            rep.fail("no error without a tally-pool conflict", inp, got=raised)
            continue
        got_ids = [c.id for c in out]
        if got_ids != list(exp.keys()):
            rep.fail("one record per identifier, first-appearance order", inp, got=got_ids, expected=list(exp.keys()))
            continue
        for c in out:
            e = exp[c.id]
            if c.votes != e["votes"]:
                rep.fail("contests are the union, later record wins within a contest", inp, got=c.votes, expected=e["votes"])
            if c.phantom is not e["phantom"] and c.phantom != e["phantom"]:
                rep.fail("phantom only if all were", inp, got=c.phantom, expected=e["phantom"])
            if not isinstance(c.pool, (bool, np.bool_)) or bool(c.pool) != e["pool"]:
                rep.fail("pool is a true/false value, true iff at least one was pooled", inp, got=repr(c.pool), expected=e["pool"])
            if c.tally_pool != e["tp"] or (c.tally_pool is None) != (e["tp"] is None):
                rep.fail("keeps the common tally pool", inp, got=c.tally_pool, expected=e["tp"])
    rep.sample({"input": [{"id": "a", "votes": {"c1": {"x": 1}}}, {"id": "a", "votes": {"c2": {"y": 1}}}], "expected": "one record a with c1 and c2"})


# =========================================================================================== C18 / C14c: RAIRE format readers

def raire_files(rep):
    """small RAIRE-format inputs: 1-2 contests over candidates {1,2,3} / {7,8}, <= 3 (4) ballot lines, ids possibly repeated"""
    cands = {"A": ["1", "2", "3"], "B": ["7", "8"]}
    rankings = {k: [list(p) for r in range(0, len(v) + 1) for p in itertools.permutations(v, r)] for k, v in cands.items()}
    nmax = 4 if thorough(rep) else 3
    for contests in (["A"], ["A", "B"]):
        # ballot identifiers deliberately coincide with candidate identifiers ("1", "2") as numeric ids do in real exports
        lines_opts = [(cid, bid, rk) for cid in contests for bid in ("1", "2") for rk in rankings[cid]]
        for n in range(0, nmax + 1):
            combos = itertools.product(lines_opts, repeat=n)
            if len(lines_opts) ** n > 4000:
                combos = (tuple(rep.rng.choice(lines_opts) for _ in range(n)) for _ in range(4000 if thorough(rep) else 1200))
                rep.exhaustive = False
            for combo in combos:
                yield contests, cands, combo


def case_raire_readers(rep):
    from shangrla.core.Audit import CVR
    from shangrla.raire.raire_utils import load_contests_from_raire
    rep.bound = "RAIRE files with 1-2 contests (candidates {1,2,3}, {7,8}), <= 3 ballot lines (4 thorough), every partial ranking, " \
                "2 ballot ids (so repeats occur)"
    for contests, cands, combo in raire_files(rep):
        header = [[str(len(contests))]] + [["Contest", cid, str(len(cands[cid]))] + cands[cid] + ["winner", cands[cid][0]] for cid in contests]
        rows = header + [[cid, bid] + rk for (cid, bid, rk) in combo]
        rep.case((contests, combo), nontrivial=len(combo) >= 1)
        inp = {"rows": rows}
        # oracle (property text): rank k for the k-th listed candidate, header lines skipped, one card per id with its
        # contests merged (later record wins within a contest)
        exp = {}
        for (cid, bid, rk) in combo:
            exp.setdefault(bid, {})[cid] = {c: k + 1 for k, c in enumerate(rk)}
        try:
            cvrs, n_read = CVR.from_raire([list(r) for r in rows])
        except Exception as ex:
            rep.fail("from_raire does not raise", inp, got=type(ex).__name__ + ": " + str(ex)[:80])
            continue
        got = {c.id: c.votes for c in cvrs}
        if [c.id for c in cvrs] != list(exp.keys()) or got != exp:
            rep.fail("from_raire: rank k to the k-th listed candidate, header skipped, contests merged per card", inp, got=got, expected=exp)
        # the generator's reader on the same content
        with tempfile.NamedTemporaryFile("w", suffix=".raire", delete=False) as f:
            f.write("\n".join(",".join(r) for r in rows) + "\n")
            path = f.name
        try:
            # the file-level entry point of the audit's reader gives what the row-level one gives on the file's rows
            try:
                fcvrs, fread, fdistinct = CVR.from_raire_file(path)
                fgot = {c.id: c.votes for c in fcvrs}
                if fgot != got or [c.id for c in fcvrs] != [c.id for c in cvrs] or fdistinct != len(cvrs):
                    rep.fail("from_raire_file reads the file as from_raire reads its rows (one record per identifier)", inp,
                             got={"cards": fgot, "distinct": fdistinct}, expected={"cards": got, "distinct": len(cvrs)})
            except Exception as ex:
                rep.fail("from_raire_file does not raise", inp, got=type(ex).__name__ + ": " + str(ex)[:80])
            rcontests, rcvrs = load_contests_from_raire(path)
        except Exception as ex:
            rep.fail("load_contests_from_raire does not raise", inp, got=type(ex).__name__ + ": " + str(ex)[:80])
            continue
        finally:
            os.unlink(path)
        for bid, cons in exp.items():
            for cid, _ranks in cons.items():
                # what the AUDIT's reader actually holds for this card and contest (not the oracle's reading)
                ranks = got.get(bid, {}).get(cid)
                if ranks is None:
                    rep.fail("both readers see every (card, contest)", inp, got="audit reader misses " + bid + "/" + cid)
                    continue
                audit_order = [c for c, _ in sorted(ranks.items(), key=lambda kv: kv[1]) if c in cands[cid]]
                rb = rcvrs.get(bid, {}).get(cid)
                if rb is None:
                    rep.fail("both readers see every (card, contest)", inp, got="missing " + bid + "/" + cid)
                    continue
                raire_order = [c for c, _ in sorted(rb.items(), key=lambda kv: kv[1])]
                if audit_order != raire_order:
                    rep.fail("both readers assign the same preference order", inp, got={"audit": audit_order, "raire": raire_order})
        if sorted(rcvrs.keys()) != sorted(exp.keys()):
            rep.fail("both readers see the same cards", inp, got=sorted(rcvrs.keys()), expected=sorted(exp.keys()))
    rep.sample({"rows": [["1"], ["Contest", "A", "3", "1", "2", "3", "winner", "1"], ["A", "b1", "2", "1"]],
                "expected": {"b1": {"A": {"2": 1, "1": 2}}}})


# =========================================================================================== C07 / C10: consistent sampling

def _mk_cards(pattern, nums):
    from shangrla.core.Audit import CVR
    cards = []
    for i, (has, num) in enumerate(zip(pattern, nums)):
        votes = {}
        for c in has:
            votes[c] = {"x": 1}
        cards.append(CVR(id=f"card{i}", votes=votes, sample_num=num))
    return cards


def _oracle_sampling(pattern, nums, sizes):
    """property text: union over contests of that contest's first n_c cards in sample-number order"""
    order = sorted(range(len(pattern)), key=lambda i: nums[i])
    chosen, thr = set(), {}
    for c, n_c in sizes.items():
        mine = [i for i in order if c in pattern[i]]
        chosen.update(mine[:n_c])
        thr[c] = nums[mine[n_c - 1]] if n_c >= 1 else None
    return [i for i in order if i in chosen], thr


def _sampling_space(rep, ncards, contests):
    styles = [frozenset(s) for r in range(0, len(contests) + 1) for s in itertools.combinations(contests, r)]
    for n in ncards:
        pats = itertools.product(styles, repeat=n)
        for pat in pats:
            perms = list(itertools.permutations(range(1, n + 1)))
            if len(perms) > 6:
                perms = [perms[0], perms[-1]] + rep.rng.sample(perms, 4)
                rep.exhaustive = False
            for nums in perms:
                counts = {c: sum(1 for p in pat if c in p) for c in contests}
                for sizes in itertools.product(*[range(0, counts[c] + 1) for c in contests]):
                    yield pat, [float(x) * 1.5 for x in nums], dict(zip(contests, sizes))


def case_consistent_sampling(rep):
    from shangrla.core.Audit import CVR, Contest
    contests = ["A", "B"]
    ncards = range(0, 6) if thorough(rep) else range(0, 5)
    rep.bound = f"all style assignments of <= {max(ncards)} cards over 2 contests (incl. cards listing none), sample-number orders " \
                "(all for <= 3 cards, 6 per pattern above), every size vector 0 <= n_c <= #cards listing c"
    for pat, nums, sizes in _sampling_space(rep, ncards, contests):
        cards = _mk_cards(pat, nums)
        cons = {c: Contest(id=c, sample_size=sizes[c]) for c in contests}
        rep.case((sorted(map(sorted, pat)), nums, sizes), nontrivial=any(sizes.values()))
        inp = {"styles": [sorted(p) for p in pat], "sample_nums": nums, "sizes": sizes}
        exp, thr = _oracle_sampling(pat, nums, sizes)
        try:
            got = CVR.consistent_sampling(cvr_list=cards, contests=cons)
        except Exception as ex:
            rep.fail("consistent_sampling does not raise when sizes <= cards available", inp, got=type(ex).__name__ + ": " + str(ex)[:80])
            continue
        if list(got) != exp:
            rep.fail("selection = union of each contest's first n_c cards, in sample-number order, no repetition", inp, got=list(got), expected=exp)
        for c in contests:
            if sizes[c] >= 1 and cons[c].sample_threshold != thr[c]:
                rep.fail("threshold = sample number of the contest's n_c-th card", inp, got=cons[c].sample_threshold, expected=thr[c])
        flags = [i for i, cv in enumerate(cards) if cv.sampled]
        if sorted(flags) != sorted(exp):
            rep.fail("sampled flag set exactly on the selected cards", inp, got=flags, expected=sorted(exp))
    rep.sample({"styles": [["A"], ["B"], ["A", "B"]], "sample_nums": [3.0, 1.5, 4.5], "sizes": {"A": 1, "B": 1}, "expected": [1, 0]})


def case_sampling_escalation(rep):
    """C10: rounds with non-decreasing sizes; redraw from scratch and continue from the previous selection"""
    from shangrla.core.Audit import CVR, Contest
    contests = ["A", "B"]
    ncards = range(1, 6) if thorough(rep) else range(1, 5)
    rep.bound = f"<= {max(ncards)} cards, 2 contests, two rounds with every pair of size vectors n <= n' (component-wise)"
    for pat, nums, sizes in _sampling_space(rep, ncards, contests):
        counts = {c: sum(1 for p in pat if c in p) for c in contests}
        for sizes2 in itertools.product(*[range(sizes[c], counts[c] + 1) for c in contests]):
            sizes2 = dict(zip(contests, sizes2))
            if sizes2 == sizes:
                continue
            inp = {"styles": [sorted(p) for p in pat], "sample_nums": nums, "round1": sizes, "round2": sizes2}
            rep.case((sorted(map(sorted, pat)), nums, sizes, sizes2))
            exp1, _ = _oracle_sampling(pat, nums, sizes)
            exp2, thr2 = _oracle_sampling(pat, nums, sizes2)
            # (a) redraw from scratch
            cards = _mk_cards(pat, nums)
            cons = {c: Contest(id=c, sample_size=sizes[c]) for c in contests}
            try:
                r1 = list(CVR.consistent_sampling(cvr_list=cards, contests=cons))
                for c in contests:
                    cons[c].sample_size = sizes2[c]
                r2 = list(CVR.consistent_sampling(cvr_list=cards, contests=cons))
            except Exception as ex:
                rep.fail("redraw: does not raise", inp, got=type(ex).__name__ + ": " + str(ex)[:80])
                continue
            if r2 != exp2:
                rep.fail("redraw: the later round is the closed-form selection for the new sizes (same card list, flags from round 1 set)", inp, got=r2, expected=exp2)
            if not set(r1) <= set(r2):
                rep.fail("redraw: the later round's cards contain the earlier round's", inp, got={"r1": r1, "r2": r2})
            for c in contests:
                s1 = [i for i in r1 if c in pat[i]][:sizes[c]]
                s2 = [i for i in r2 if c in pat[i]][:sizes2[c]]
                if s2[:len(s1)] != s1:
                    rep.fail("redraw: each contest's card sequence is extended, not reordered", inp, got={"c": c, "s1": s1, "s2": s2})
            # (b) continue from the previously selected cards
            cards = _mk_cards(pat, nums)
            cons = {c: Contest(id=c, sample_size=sizes[c]) for c in contests}
            try:
                r1 = list(CVR.consistent_sampling(cvr_list=cards, contests=cons))
            except Exception as ex:
                rep.fail("first round does not raise", inp, got=type(ex).__name__ + ": " + str(ex)[:80])
                continue
            thr1 = {c: cons[c].sample_threshold for c in contests}
            for c in contests:
                cons[c].sample_size = sizes2[c]
            skipped = False
            order = sorted(range(len(pat)), key=lambda i: nums[i])
            if r1:
                last = max(order.index(i) for i in r1)
                skipped = any(order[k] not in r1 for k in range(last + 1))
            try:
                rc = list(CVR.consistent_sampling(cvr_list=cards, contests=cons, sampled_cvr_indices=list(r1)))
            except Exception as ex:
                rep.fail("continue: does not raise", inp, got=type(ex).__name__ + ": " + str(ex)[:80])
                continue
            if not (sorted(rc) == sorted(exp2) and len(set(rc)) == len(rc)):
                rep.fail("continue: same cards as a fresh draw with the new sizes, no repetition", inp,
                         got={"continued": rc}, expected={"fresh": exp2})
            elif not all(cons[c].sample_threshold == thr2[c] for c in contests if sizes2[c] >= 1):
                # (was known finding K5 until fix 9bfcd8d: the continuation now recomputes every threshold)
                rep.fail("continue: thresholds as a fresh draw with the new sizes", inp,
                         got={c: cons[c].sample_threshold for c in contests}, expected=thr2)
            else:
                # the data an assertion of contest c sees: the selected cards that list c up to c's threshold, in the order returned
                for c in contests:
                    if sizes[c] >= 1:
                        s1 = [i for i in r1 if c in pat[i] and nums[i] <= thr1[c]]
                        s2 = [i for i in rc if c in pat[i] and nums[i] <= cons[c].sample_threshold]
                        if s2[:len(s1)] != s1:
                            rep.fail("continue: each contest's card sequence is the earlier round's with new cards appended", inp,
                                     got={"contest": c, "round1": s1, "continued": s2})
    rep.sample({"styles": [["A"], [], ["A"]], "sample_nums": [1.5, 3.0, 4.5], "round1": {"A": 1, "B": 0}, "round2": {"A": 2, "B": 0}})


def case_assign_sample_nums(rep):
    """C07: sample numbers are a deterministic function of the seed and a card's position only"""
    from shangrla.core.Audit import CVR
    from cryptorandom.cryptorandom import SHA256
    rep.bound = "seeds 0..19 (0..199 thorough), 1-6 cards, two different vote contents"
    for seed in range(200 if thorough(rep) else 20):
        for n in range(1, 7):
            a = [CVR(id=str(i), votes={"A": {"x": 1}}) for i in range(n)]
            b = [CVR(id="z" + str(i), votes={"B": {"y": i}}, phantom=bool(i % 2)) for i in range(n)]
            CVR.assign_sample_nums(a, SHA256(seed))
            CVR.assign_sample_nums(b, SHA256(seed))
            c = [CVR(id=str(i), votes={}) for i in range(n + 1)]
            CVR.assign_sample_nums(c, SHA256(seed))
            rep.case((seed, n))
            if [x.sample_num for x in a] != [x.sample_num for x in b]:
                rep.fail("sample numbers do not depend on the records' contents", {"seed": seed, "n": n})
            if [x.sample_num for x in a] != [x.sample_num for x in c][:n]:
                rep.fail("sample number of position i does not depend on the list length", {"seed": seed, "n": n})
            if len({x.sample_num for x in c}) != len(c):
                rep.fail("sample numbers are distinct", {"seed": seed, "n": n})
            # cards that already carry a number (a rehearsal with another seed, phantoms appended later): the official numbering is
            # still a function of the seed and the position only
            e = [CVR(id=str(i), votes={}) for i in range(n)]
            CVR.assign_sample_nums(e, SHA256(seed + 1000))
            for x in e[::2]:
                x.sample_num = None
            CVR.assign_sample_nums(e, SHA256(seed))
            if [x.sample_num for x in e] != [x.sample_num for x in a]:
                rep.fail("sample numbers depend on the seed and the position only (earlier numbers are overwritten)", {"seed": seed, "n": n},
                         got=[x.sample_num for x in e][:3], expected=[x.sample_num for x in a][:3])
    rep.sample({"seed": 0, "n": 3})


def case_prep_samples(rep):
    """C10 / C17: prep_comparison_sample / prep_polling_sample put the CALLER's lists into selection order (in place), pairing
    every manual record with its CVR; this is what makes a later round's data the earlier data with observations appended"""
    from shangrla.core.Audit import CVR
    nmax = 5 if thorough(rep) else 4
    rep.bound = f"1..{nmax} sampled cards, every selection order, every initial order of the two lists (sampled above 3 cards)"
    for n in range(1, nmax + 1):
        ids = [f"card{i}" for i in range(n)]
        orders = list(itertools.permutations(range(n)))
        for sel in orders:
            so = {ids[i]: {"selection_order": sel[i], "serial": i + 1} for i in range(n)}
            want = [ids[i] for i in sorted(range(n), key=lambda i: sel[i])]
            inits = orders if n <= 3 else [rep.rng.choice(orders) for _ in range(4)]
            if n > 3:
                rep.exhaustive = False
            for om in inits:
                for oc in (inits if n <= 3 else [rep.rng.choice(orders) for _ in range(2)]):
                    mv = [CVR(id=ids[i], votes={"c": {"m": i}}, phantom=bool(i % 2)) for i in om]       # (some sampled cards are phantoms)
                    cv = [CVR(id=ids[i], votes={"c": {"v": i}}, phantom=bool(i % 2)) for i in oc]
                    mv0, cv0 = mv, cv
                    inp = {"selection_order": list(sel), "mvr_order": list(om), "cvr_order": list(oc)}
                    rep.case(("cmp", sel, om, oc))
                    try:
                        CVR.prep_comparison_sample(mv, cv, so)
                    except Exception as ex:
                        rep.fail("prep_comparison_sample does not raise", inp, got=type(ex).__name__ + ": " + str(ex)[:80])
                        continue
                    if [x.id for x in mv0] != want or [x.id for x in cv0] != want:
                        rep.fail("prep_comparison_sample leaves BOTH of the caller's lists in selection order, paired by identifier", inp,
                                 got={"mvr": [x.id for x in mv0], "cvr": [x.id for x in cv0]}, expected=want)
                mv = [CVR(id=ids[i], votes={}, phantom=bool(i % 2)) for i in om]
                rep.case(("poll", sel, om))
                try:
                    CVR.prep_polling_sample(mv, so)
                except Exception as ex:
                    rep.fail("prep_polling_sample does not raise", {"selection_order": list(sel), "mvr_order": list(om)}, got=type(ex).__name__)
                    continue
                if [x.id for x in mv] != want:
                    rep.fail("prep_polling_sample leaves the caller's list in selection order", {"selection_order": list(sel), "mvr_order": list(om)},
                             got=[x.id for x in mv], expected=want)
    rep.sample({"selection_order": [2, 0, 1], "mvr_order": [0, 1, 2], "cvr_order": [2, 1, 0]})


# =========================================================================================== C08: phantoms

def case_make_phantoms(rep):
    from shangrla.core.Audit import CVR, Contest, Audit, Stratum
    contests = ["A", "B"]
    nmax = 4 if thorough(rep) else 3
    rep.bound = f"<= {nmax} CVRs over 2 contests (every style assignment, some inputs already phantoms), card bounds = count..count+2 or " \
                "unspecified, stratum bound = #CVRs..#CVRs+2, style on/off"
    styles = [frozenset(s) for r in range(0, 3) for s in itertools.combinations(contests, r)]
    for n in range(0, nmax + 1):
        for pat in itertools.product(styles, repeat=n):
            for use_style in (True, False):
                counts = {c: sum(1 for p in pat if c in p) for c in contests}
                for extra in itertools.product(range(0, 3), repeat=2):
                    for unspecified in ((), ("A",)):
                        for max_extra in range(0, 3):
                            max_cards = n + max(extra) + max_extra
                            cards_spec = {c: (None if c in unspecified else counts[c] + e) for c, e in zip(contests, extra)}
                            cvrs = [CVR(id=f"c{i}", votes={c: {"x": 1} for c in p}) for i, p in enumerate(pat)]
                            snapshot = [(cv.id, copy.deepcopy(cv.votes), cv.phantom) for cv in cvrs]
                            cons = {c: Contest(id=c, cards=cards_spec[c]) for c in contests}
                            audit = Audit()
                            audit.strata = {"s": Stratum(use_style=use_style, max_cards=max_cards)}
                            inp = {"styles": [sorted(p) for p in pat], "cards": cards_spec, "max_cards": max_cards, "use_style": use_style}
                            rep.case(inp, nontrivial=n > 0)
                            try:
                                # (the dict of contests is keyed by something other than the contest ids: only con.id identifies a contest on a card)
                                out, nph = CVR.make_phantoms(audit=audit, contests={"key of " + k_: v_ for k_, v_ in cons.items()}, cvr_list=cvrs, prefix="ph-")
                            except Exception as ex:
                                rep.fail("make_phantoms does not raise", inp, got=type(ex).__name__ + ": " + str(ex)[:80],
                                         known="K8" if (use_style and n == 0) else None)
                                continue
                            if [id(x) for x in out[:n]] != [id(x) for x in cvrs] or snapshot != [(cv.id, cv.votes, cv.phantom) for cv in cvrs]:
                                rep.fail("the original records come back unchanged and first", inp)
                            ph = out[n:]
                            if len(ph) != nph or not all(p.phantom for p in ph):
                                rep.fail("returned count = number of phantom records appended", inp, got=(len(ph), nph))
                            ids = [p.id for p in out]
                            if len(set(ids)) != len(ids):
                                rep.fail("identifiers are unique", inp, got=ids)
                            if use_style:
                                need = {c: (cards_spec[c] if cards_spec[c] is not None else max_cards) - counts[c] for c in contests}
                                for c in contests:
                                    listed = sum(1 for p in out if c in p.votes)
                                    bound = cards_spec[c] if cards_spec[c] is not None else max_cards
                                    if listed != bound:
                                        rep.fail("records listing the contest (real + phantom) = the contest's card bound", inp, got={c: listed}, expected={c: bound})
                                    if cons[c].cvrs != counts[c]:
                                        rep.fail("con.cvrs = number of real CVRs listing the contest", inp, got=cons[c].cvrs, expected=counts[c])
                                if nph != max(0, max(need.values())):
                                    rep.fail("no more phantoms than the largest shortfall", inp, got=nph, expected=max(0, max(need.values())))
                            else:
                                if len(out) != max_cards:
                                    rep.fail("total number of records = the stratum's card bound", inp, got=len(out), expected=max_cards)
                                for c in contests:
                                    if cons[c].cards != max_cards:
                                        rep.fail("without style information every contest's bound is the stratum bound", inp, got=cons[c].cards)
    rep.sample({"styles": [["A"], ["A", "B"]], "cards": {"A": 3, "B": 1}, "max_cards": 3, "use_style": True, "expected_phantoms": 1})


# =========================================================================================== C16: sample sizes

def case_interleave_values(rep):
    from shangrla.core.Audit import Assertion
    m = 7 if thorough(rep) else 5
    rep.bound = f"all (n_small, n_med, n_big) in 0..{m} with a positive total"
    for ns, nm, nb in itertools.product(range(m + 1), repeat=3):
        if ns + nm + nb == 0:
            continue
        inp = {"n_small": ns, "n_med": nm, "n_big": nb}
        rep.case(inp)
        try:
            x = Assertion.interleave_values(ns, nm, nb, small=0, med=0.5, big=2.0)
        except Exception as ex:
            rep.fail("interleave_values does not raise", inp, got=type(ex).__name__ + ": " + str(ex)[:60])
            continue
        got = {"n_small": int(np.sum(x == 0)), "n_med": int(np.sum(x == 0.5)), "n_big": int(np.sum(x == 2.0))}
        if got != inp or len(x) != ns + nm + nb:
            rep.fail("exactly the requested number of each value", inp, got=got)
    rep.sample({"n_small": 1, "n_med": 2, "n_big": 3})


class _Rec:
    pass


def case_find_sample_size(rep):
    """C16: data constructed per audit type, delegated with the contest's risk limit; contest estimate = max over assertions;
    deterministic estimate = first crossing on the tiled pilot data; prefix crossing => every simulation estimate equals it"""
    from shangrla.core.Audit import Assertion, Assorter, Contest, Audit
    from shangrla.core.NonnegMean import NonnegMean
    rep.bound = "margins {.02,.1,.4}, rates {0,.01,.05,.25}, N in {10,57,200}; tallies over a grid; pilot vectors of length <= 4 over " \
                "{0,.5,1}; seeds 0..4, reps {1,3}, quantiles {.1,.5,.9}"
    rep.exhaustive = False

    def mk(audit_type, margin, N, u=1.0, tally=None, cf="PLURALITY"):
        con = Contest(id="c", risk_limit=0.05, cards=N, choice_function=cf, candidates=["W", "L"], winner=["W"], audit_type=audit_type, tally=tally)
        test = NonnegMean(test=NonnegMean.alpha_mart, estim=NonnegMean.optimal_comparison if audit_type != "POLLING" else NonnegMean.shrink_trunc,
                          u=(2 / (2 - margin / u)) if audit_type != "POLLING" else u, N=N, t=0.5, eta=0.5 + margin / 2)
        asn = Assertion(contest=con, assorter=Assorter(contest=con, assort=lambda c: 0.5, upper_bound=u), winner="W", loser="L",
                        margin=margin, test=test)
        rec = {}
        real = test.sample_size

        def spy(x, **kw):
            rec["x"] = np.array(x, dtype=float).copy()
            rec["kw"] = kw
            rec["ret"] = real(x, **kw)
            return rec["ret"]

        test.sample_size = spy
        return con, asn, rec

    for margin in (0.02, 0.1, 0.4):
        for N in (10, 57, 200):
            for r1 in (0, 0.01, 0.05, 0.25):
                for r2 in (0, 0.01, 0.05, 0.25):
                    for at in ("CARD_COMPARISON", "ONEAUDIT"):
                        con, asn, rec = mk(at, margin, N)
                        inp = {"audit_type": at, "margin": margin, "N": N, "rate_1": r1, "rate_2": r2}
                        rep.case(inp)
                        try:
                            ss = asn.find_sample_size(rate_1=r1, rate_2=r2)
                        except Exception as ex:
                            rep.fail("find_sample_size does not raise", inp, got=type(ex).__name__ + ": " + str(ex)[:60])
                            continue
                        big = asn.make_overstatement(overs=0)
                        small = asn.make_overstatement(overs=0.5)
                        rate1 = r1 if r1 is not None else (1 - margin) / 2
                        exp = np.full(N, big)
                        if rate1:
                            exp[np.arange(0, N, int(1 / rate1))] = small
                        if r2:
                            exp[np.arange(0, N, int(1 / r2))] = 0
                        if not np.allclose(rec["x"], exp):
                            rep.fail("comparison: error-free values with one- and two-vote overstatements at the assumed rates", inp)
                        if rec["kw"].get("alpha") != con.risk_limit:
                            rep.fail("delegates with the contest's risk limit", inp, got=rec["kw"].get("alpha"))
                        if ss != rec["ret"] or asn.sample_size != ss:
                            rep.fail("returns and records the test's estimate", inp)
    for N in (10, 30):
        for tw in range(1, N + 1):
            for tl in range(0, min(tw, N - tw + 1)):
              for third in (None, 0, (N - tw - tl) // 2, N - tw - tl):          # votes for a third candidate (None: two-candidate contest)
                if third is not None and third < 0:
                    continue
                tally = {"W": tw, "L": tl} if third is None else {"W": tw, "L": tl, "O": third}
                con, asn, rec = mk("POLLING", max((tw - tl) / N, 0.01), N, tally=tally)
                if third is not None:
                    con.candidates = ["W", "L", "O"]
                inp = {"audit_type": "POLLING", "N": N, "tally": tally}
                rep.case(inp)
                try:
                    asn.find_sample_size()
                except Exception as ex:
                    rep.fail("find_sample_size (polling) does not raise", inp, got=type(ex).__name__ + ": " + str(ex)[:60])
                    continue
                x = rec["x"]
                got = (int(np.sum(x == 0)), int(np.sum(x == 0.5)), int(np.sum(x == 1.0)))
                if got != (tl, N - tw - tl, tw) or len(x) != N:
                    rep.fail("polling: the reported tallies interleaved (losers 0, others 1/2, winners u)", inp, got=got, expected=(tl, N - tw - tl, tw))
    # contest level = max over assertions
    for sizes in itertools.product((3, 11, 40), repeat=3):
        con = Contest(id="c", risk_limit=0.05, cards=100, candidates=["W", "L"], winner=["W"])
        asns = {}
        for k, s in enumerate(sizes):
            a = _Rec()
            a.find_sample_size = (lambda s: (lambda *aa, **kw: s))(s)
            a.mvrs_to_data = lambda *aa, **kw: (None, 1)
            asns[str(k)] = a
        con.assertions = asns
        aud = _Rec()
        aud.error_rate_1 = aud.error_rate_2 = 0
        aud.reps = None
        aud.quantile = 0.5
        aud.sim_seed = 1
        rep.case({"contest_sizes": sizes})
        if con.find_sample_size(audit=aud) != max(sizes) or con.sample_size != max(sizes):
            rep.fail("a contest's estimate is the largest among its assertions", {"sizes": sizes})
    # deterministic estimate and simulation with a prefix
    vals = (0.0, 0.5, 1.0)
    for L in range(1, 5):
        for x in itertools.product(vals, repeat=L):
            for N in (L + 3, 40):
                for eta in (0.6, 0.9):
                    t = NonnegMean(test=NonnegMean.alpha_mart, estim=NonnegMean.fixed_alternative_mean, u=1, N=N, t=0.5, eta=eta)
                    inp = {"x": x, "N": N, "eta": eta}
                    rep.case(inp, nontrivial=len(set(x)) > 1)
                    for alpha in (0.05, 0.3):
                        pop = np.array([x[i % L] for i in range(N)])
                        hist = t.test(pop)[1]
                        cross = [k + 1 for k in range(N) if hist[k] <= alpha]
                        exp = cross[0] if cross else N
                        got = t.sample_size(list(x), alpha=alpha)
                        if got != exp:
                            rep.fail("deterministic estimate = first crossing on the pilot data tiled to N, else N", dict(inp, alpha=alpha), got=got, expected=exp)
                        # prefix already crossing at k (within the prefix)
                        hx = t.test(np.array(x))[1] if L <= N else None
                        kx = [k + 1 for k in range(L) if hx[k] <= alpha]
                        if kx:
                            k0 = kx[0]
                            # the clamp of the final entry (total > N t) can create a crossing at len(x) that longer samples do not have
                            via_clamp = (k0 == L and sum(x) > N * 0.5)
                            for seed in range(5 if thorough(rep) else 2):
                                for reps in (1, 3):
                                    for q in (0.1, 0.5, 0.9):
                                        got = t.sample_size(list(x), alpha=alpha, reps=reps, prefix=True, quantile=q, seed=seed)
                                        if got != k0 and not via_clamp:
                                            rep.fail("prefix data crossing at k => every simulation estimate is k", dict(inp, alpha=alpha, seed=seed, reps=reps, q=q), got=got, expected=k0)
    rep.sample({"x": [1.0, 0.0], "N": 40, "eta": 0.9, "alpha": 0.3})


# =========================================================================================== C17: manifests and look-ups

def case_manifests(rep):
    import pandas as pd
    from shangrla.formats.Dominion import Dominion
    from shangrla.formats.Hart import Hart
    from shangrla.core.Audit import CVR
    rep.bound = "manifests of 1-4 batches with sizes 0..3 (incl. empty batches); every valid sample number, several orders; " \
                "card bounds from manifest-1 to manifest+2; CVR counts around the manifest size"
    for nb in range(1, 5 if thorough(rep) else 4):
        for sizes in itertools.product(range(0, 4), repeat=nb):
            total = sum(sizes)
            if total == 0:
                continue
            # ---------- Dominion (1-based) ----------
            man = pd.DataFrame({"Tray #": list(range(1, nb + 1)), "Tabulator Number": [f"T{b}" for b in range(nb)],
                                "Batch Number": list(range(10, 10 + nb)), "Total Ballots": list(sizes),
                                "VBMCart.Cart number": list(range(1, nb + 1))})
            for extra, ncvr in ((0, total), (2, total), (2, max(total - 1, 0)), (1, 0)):
                inp = {"vendor": "Dominion", "sizes": sizes, "max_cards": total + extra, "n_cvrs": ncvr}
                rep.case(inp)
                try:
                    m2, mcards, ph = Dominion.prep_manifest(man.copy(), total + extra, ncvr)
                except Exception as ex:
                    rep.fail("prep_manifest does not raise for manifest <= bound", inp, got=type(ex).__name__ + ": " + str(ex)[:80])
                    continue
                if ph != extra or mcards != total or int(m2["cum_cards"].iloc[-1]) != total + extra or \
                        (extra > 0) != ("phantom" in list(m2["Tabulator Number"])):
                    rep.fail("phantom batch makes the manifest account for exactly the card bound", inp, got=(ph, mcards))
                valid = list(range(1, total + extra + 1))
                for order in (valid, valid[::-1], rep.rng.sample(valid, len(valid))):
                    try:
                        cards, so, mph = Dominion.sample_from_manifest(m2, order)
                    except Exception as ex:
                        rep.fail("sample_from_manifest does not raise on valid numbers", dict(inp, sample=order), got=type(ex).__name__ + ": " + str(ex)[:80])
                        break
                    ids = [c[5] for c in cards]
                    if len(set(ids)) != len(valid):
                        rep.fail("valid sample numbers map one-to-one onto cards", dict(inp, sample=order), got=ids)
                    for c in cards:
                        tab, batch, pos, s = c[2], c[3], c[4], c[6]
                        row = m2[(m2["Tabulator Number"] == tab) & (m2["Batch Number"] == batch)]
                        if len(row) != 1 or not (1 <= pos <= int(row["Total Ballots"].iloc[0])):
                            rep.fail("position within the batch's size", dict(inp, sample=order), got=c)
                        elif int(row["cum_cards"].iloc[0]) - int(row["Total Ballots"].iloc[0]) + pos != s:
                            rep.fail("sample number = cards before the batch + position", dict(inp, sample=order), got=c)
                    for i, s in enumerate(order):
                        cid = [c[5] for c in cards if c[6] == s][0]
                        if so[cid]["selection_order"] != i:
                            rep.fail("selection order recorded", dict(inp, sample=order), got=so[cid])
                    exp_ph = sorted(c[5] for c in cards if c[2] == "phantom")
                    if sorted(p.id for p in mph) != exp_ph or not all(p.phantom for p in mph):
                        rep.fail("phantom manual record exactly for cards in the phantom batch", dict(inp, sample=order), got=[p.id for p in mph], expected=exp_ph)
            for bad in (total - 1,):
                try:
                    Dominion.prep_manifest(man.copy(), bad, 0)
                    rep.fail("refuses a manifest larger than the bound", {"vendor": "Dominion", "sizes": sizes, "max_cards": bad})
                except AssertionError:
                    pass
                except Exception as ex:
                    rep.fail("refuses a manifest larger than the bound (AssertionError)", {"vendor": "Dominion", "sizes": sizes}, got=type(ex).__name__)
            try:
                Dominion.prep_manifest(man.copy(), total + 1, total + 1)
                rep.fail("refuses a manifest smaller than the number of CVRs", {"vendor": "Dominion", "sizes": sizes})
            except AssertionError:
                pass
            except Exception as ex:
                rep.fail("refuses a manifest smaller than the number of CVRs (AssertionError)", {"vendor": "Dominion", "sizes": sizes}, got=type(ex).__name__)
            # ---------- Hart (0-based) ----------
            hman = pd.DataFrame({"Container": list(range(nb)), "Tabulator": [f"T{b}" for b in range(nb)],
                                 "Batch Name": [f"B{b}" for b in range(nb)], "Number of Ballots": list(sizes)})
            for extra, ncvr in ((0, total), (2, total), (2, max(total - 1, 0)), (1, 0)):
                inp = {"vendor": "Hart", "sizes": sizes, "max_cards": total + extra, "n_cvrs": ncvr}
                rep.case(inp)
                try:
                    m2, mcards, ph = Hart.prep_manifest(hman.copy(), total + extra, ncvr)
                except Exception as ex:
                    rep.fail("prep_manifest does not raise for manifest <= bound", inp, got=type(ex).__name__ + ": " + str(ex)[:80])
                    continue
                if ph != extra or mcards != total or int(m2["cum_cards"].iloc[-1]) != total + extra:
                    rep.fail("phantom batch makes the manifest account for exactly the card bound", inp, got=(ph, mcards))
                valid = list(range(0, total + extra))
                sizes2 = [int(v) for v in m2["Number of Ballots"]]
                for order in (valid, valid[::-1]):
                    try:
                        cards, so, mph = Hart.sample_from_manifest(m2, order)
                    except Exception as ex:
                        rep.fail("sample_from_manifest does not raise on valid numbers", dict(inp, sample=order), got=type(ex).__name__ + ": " + str(ex)[:80])
                        break
                    ids = [c[4] for c in cards]
                    if len(set(ids)) != len(valid):
                        rep.fail("valid sample numbers map one-to-one onto cards", dict(inp, sample=order), got=ids)
                    for c in cards:
                        tab, batch, pos = c[1], c[2], c[3]
                        b = list(m2["Batch Name"]).index(batch)
                        if not (0 <= pos < sizes2[b]):
                            rep.fail("position within the batch's size", dict(inp, sample=order), got=c)
                    for i, s in enumerate(order):
                        b = 0
                        while s >= sum(sizes2[:b + 1]):
                            b += 1
                        cid = f"{list(m2['Tabulator'])[b]}-{list(m2['Batch Name'])[b]}-{s - sum(sizes2[:b])}"
                        if cid not in so or so[cid]["selection_order"] != i:
                            rep.fail("sample number s is card (batch, s - cards before) with its selection order", dict(inp, sample=order), got=list(so.keys())[:4], expected=cid)
                    exp_ph = sorted(c[4] for c in cards if c[1] == "phantom")
                    if sorted(p.id for p in mph) != exp_ph:
                        rep.fail("phantom manual record exactly for cards in the phantom batch", dict(inp, sample=order), got=[p.id for p in mph], expected=exp_ph)
    # look-up from sampled CVRs
    man = pd.DataFrame({"Tray #": [1, 2], "Tabulator Number": ["7", "8"], "Batch Number": ["1", "2"], "Total Ballots": [3, 3],
                        "VBMCart.Cart number": [5, 6]})
    cvrs = [CVR(id=f"{7 + (i // 3)}-{1 + (i // 3)}-{i % 3 + 1}", votes={}, card_in_batch=i % 3 + 1) for i in range(6)]
    cvrs += [CVR(id="phantom-1-1", votes={}, phantom=True), CVR(id="phantom-1-2", votes={}, phantom=True)]
    for r in range(1, len(cvrs) + 1):
        for sample in itertools.permutations(range(len(cvrs)), r) if r <= 2 else [tuple(rep.rng.sample(range(len(cvrs)), r)) for _ in range(12)]:
            inp = {"vendor": "Dominion", "sample": sample}
            rep.case(inp)
            try:
                cards, so, cs, mph = Dominion.sample_from_cvrs(cvrs, man, np.array(sample))
            except Exception as ex:
                rep.fail("sample_from_cvrs does not raise", inp, got=type(ex).__name__ + ": " + str(ex)[:80])
                continue
            if [id(c) for c in cs] != [id(cvrs[s]) for s in sample]:
                rep.fail("returns the sampled CVRs in selection order", inp, got=[c.id for c in cs])
            for i, s in enumerate(sample):
                if cvrs[s].id not in so or so[cvrs[s].id]["selection_order"] != i:
                    rep.fail("selection order recorded under the matching identifier", inp, got=list(so.keys()))
            if sorted(p.id for p in mph) != sorted(cvrs[s].id for s in sample if cvrs[s].phantom):
                rep.fail("phantom manual record exactly for sampled phantom CVRs", inp, got=[p.id for p in mph])
    # the same look-up for Hart (identifiers "<batch>_<card>", phantoms "phantom-<batch>-<card>")
    hman = pd.DataFrame({"Container": ["c1", "c2"], "Tabulator": ["t1", "t2"], "Batch Name": ["1", "3"], "Number of Ballots": [3, 3]})
    hcvrs = [CVR(id=f"{(1, 3)[i // 3]}_{i % 3 + 1}", votes={}) for i in range(6)]
    hcvrs += [CVR(id="phantom-1-1", votes={}, phantom=True), CVR(id="phantom-1-2", votes={}, phantom=True)]
    for r in range(1, len(hcvrs) + 1):
        for sample in itertools.permutations(range(len(hcvrs)), r) if r <= 2 else [tuple(rep.rng.sample(range(len(hcvrs)), r)) for _ in range(12)]:
            inp = {"vendor": "Hart", "sample": sample}
            rep.case(inp)
            try:
                cards, so, cs, mph = Hart.sample_from_cvrs(hcvrs, hman, np.array(sample))
            except Exception as ex:
                rep.fail("sample_from_cvrs does not raise", inp, got=type(ex).__name__ + ": " + str(ex)[:80])
                continue
            if [id(c) for c in cs] != [id(hcvrs[s]) for s in sample]:
                rep.fail("returns the sampled CVRs in selection order", inp, got=[c.id for c in cs])
            for i, s in enumerate(sample):
                if hcvrs[s].id not in so or so[hcvrs[s].id]["selection_order"] != i:
                    rep.fail("selection order recorded under the matching identifier", inp,
                             got={k: v.get("selection_order") for k, v in so.items()}, expected={hcvrs[s].id: i})
            if sorted(p.id for p in mph) != sorted(hcvrs[s].id for s in sample if hcvrs[s].phantom):
                rep.fail("phantom manual record exactly for sampled phantom CVRs", inp, got=[p.id for p in mph])
    rep.sample({"vendor": "Dominion", "sizes": [2, 0, 1], "max_cards": 5, "sample": [1, 2, 3, 4, 5]})


# =========================================================================================== C19: Dominion import

def _dominion_oracle(sessions, use_current, enforce_rules, include_groups, pool_groups):
    out = []
    for s in sessions:
        if include_groups and s["CountingGroupId"] not in include_groups:
            continue
        votes = {}
        for key in (["Original", "Modified"] if use_current else ["Original"]):     # adjudicated data replace original data
            if key not in s:
                continue
            blk = s[key]
            contests = [c for card in blk["Cards"] for c in card["Contests"]] if "Cards" in blk else blk["Contests"]
            for con in contests:
                cv = {}
                for m in con["Marks"]:
                    if m["IsVote"] or not enforce_rules:
                        cand = str(m["CandidateId"])
                        pos = [mm["Rank"] for mm in con["Marks"] if str(mm["CandidateId"]) == cand and
                               (mm["IsVote"] or not enforce_rules) and mm["Rank"]]
                        if cand not in cv:
                            cv[cand] = min(pos) if pos else m["Rank"]
                votes[str(con["Id"])] = cv
        rid = s["RecordId"]
        if rid == "X":
            rid = s["_expected_record_number"]
        out.append({"id": f"{s['TabulatorId']}-{s['BatchId']}-{rid}", "tally_pool": f"{s['TabulatorId']}-{s['BatchId']}",
                    "pool": s["CountingGroupId"] in pool_groups, "votes": votes})
    return out


def case_dominion_read_cvrs(rep):
    from shangrla.formats.Dominion import Dominion
    rep.exhaustive = False
    n_files = 2500 if thorough(rep) else 600
    rep.bound = f"{n_files} generated exports: 1-3 sessions, both layouts, 0-2 contests per block, 0-4 marks per contest over 2 candidates with " \
                "ranks 0..3 and IsVote T/F in every order, Modified absent / first / second, obfuscated ids; all 16 option settings; 40 two-file directories"
    rng = rep.rng

    def marks():
        return [{"CandidateId": rng.choice([5, 6]), "Rank": rng.choice([0, 1, 1, 2, 3]), "IsVote": rng.random() < 0.7}
                for _ in range(rng.randint(0, 4))]

    def block(layout):
        cons = [{"Id": cid, "Marks": marks()} for cid in rng.sample([10, 11], rng.randint(0, 2))]
        if layout == "cards":
            k = rng.randint(1, 2)
            cards = [{"Contests": []} for _ in range(k)]
            for c in cons:
                rng.choice(cards)["Contests"].append(c)
            return {"Cards": cards}
        return {"Contests": cons}

    kept_sessions = []
    for f in range(n_files):
        sessions = []
        layout = rng.choice(["cards", "flat"])
        for s in range(rng.randint(1, 3)):
            sess = {"TabulatorId": rng.choice([1, 2]), "BatchId": rng.choice([7, 8]), "CountingGroupId": rng.choice([1, 2])}
            if rng.random() < 0.3:
                sess["RecordId"] = "X"
                sess["ImageMask"] = "D:\\NAS\\Images\\Results\\Tabulator%05d\\Batch%03d\\Images\\%05d_%05d_%06d*.*" % (1, 2, 1, 2, 100 + s)
                sess["_expected_record_number"] = 100 + s
            else:
                sess["RecordId"] = 100 + s
            mode = rng.choice(["none", "first", "second"])
            if mode == "first":
                sess["Modified"] = block(layout)
            sess["Original"] = block(layout)
            if mode == "second":
                sess["Modified"] = block(layout)
            sessions.append(sess)
        with tempfile.NamedTemporaryFile("w", suffix=".json", delete=False) as fh:
            json.dump({"Sessions": sessions}, fh)
            path = fh.name
        try:
            for use_current, enforce, inc, pool in itertools.product((True, False), (True, False), ([], [1]), ([], [2])):
                inp = {"sessions": sessions, "use_current": use_current, "enforce_rules": enforce, "include_groups": inc, "pool_groups": pool}
                rep.case((f, use_current, enforce, tuple(inc), tuple(pool)))
                exp = _dominion_oracle(sessions, use_current, enforce, inc, pool)
                try:
                    got = Dominion.read_cvrs(path, use_current=use_current, enforce_rules=enforce, include_groups=inc, pool_groups=pool)
                except Exception as ex:
                    rep.fail("read_cvrs does not raise", inp, got=type(ex).__name__ + ": " + str(ex)[:80])
                    continue
                g = [{"id": c.id, "tally_pool": c.tally_pool, "pool": c.pool, "votes": c.votes} for c in got]
                if [x["id"] for x in g] != [x["id"] for x in exp]:
                    rep.fail("one record per session of the included groups, in file order, with the derived identifier", inp, got=[x["id"] for x in g], expected=[x["id"] for x in exp])
                    continue
                for a, b in zip(g, exp):
                    if a["tally_pool"] != b["tally_pool"] or bool(a["pool"]) != b["pool"]:
                        rep.fail("tally pool from tabulator and batch; pooled iff its counting group is designated", inp, got=a, expected=b)
                    if a["votes"] != b["votes"]:
                        rep.fail("smallest positive rank among counted marks; adjudicated data replace original data per contest", inp, got=a["votes"], expected=b["votes"])
        finally:
            os.unlink(path)
        kept_sessions.append(sessions)
    # the directory import: the same options applied to every export of the directory, files in sorted order
    import shutil
    for d in range(0, min(len(kept_sessions), 80) - 1, 2):
        tmpd = tempfile.mkdtemp(prefix="cvrdir")
        try:
            for j in (0, 1):
                with open(os.path.join(tmpd, f"CvrExport_{j}.json"), "w") as fh:
                    json.dump({"Sessions": kept_sessions[d + j]}, fh)
            for use_current, enforce, inc, pool in itertools.product((True, False), (True, False), ([], [1]), ([], [2])):
                inp = {"files": [kept_sessions[d], kept_sessions[d + 1]], "use_current": use_current, "enforce_rules": enforce, "include_groups": inc, "pool_groups": pool}
                rep.case(("dir", d, use_current, enforce, tuple(inc), tuple(pool)))
                exp = _dominion_oracle(kept_sessions[d], use_current, enforce, inc, pool) + _dominion_oracle(kept_sessions[d + 1], use_current, enforce, inc, pool)
                try:
                    got = Dominion.read_cvrs_directory(tmpd, use_current=use_current, enforce_rules=enforce, include_groups=inc, pool_groups=pool)
                except Exception as ex:
                    rep.fail("read_cvrs_directory does not raise", inp, got=type(ex).__name__ + ": " + str(ex)[:80])
                    continue
                g = [{"id": c.id, "tally_pool": c.tally_pool, "pool": bool(c.pool), "votes": c.votes} for c in got]
                if g != [{"id": x["id"], "tally_pool": x["tally_pool"], "pool": x["pool"], "votes": x["votes"]} for x in exp]:
                    rep.fail("a directory import reads every export with the options given, files in sorted order", inp, got=g, expected=exp)
        finally:
            shutil.rmtree(tmpd, ignore_errors=True)
    rep.sample({"session": {"TabulatorId": 1, "BatchId": 7, "RecordId": 100, "CountingGroupId": 2,
                            "Original": {"Contests": [{"Id": 10, "Marks": [{"CandidateId": 5, "Rank": 2, "IsVote": True}, {"CandidateId": 5, "Rank": 1, "IsVote": True}]}]}},
                "expected_votes": {"10": {"5": 1}}})


# =========================================================================================== C20: elimination tree

def _tree_leaves(t, path=()):
    """yield (path of candidates from the root, node) for every leaf of a tree in list form"""
    if len(t) == 1:
        yield path + (t[0].cand,), t[0]
    else:
        for br in t[1]:
            yield from _tree_leaves(br, path + (t[0],))


def case_irv_tree(rep):
    from shangrla.core import IRVVisualisationUtils as V
    rep.exhaustive = False
    k = 4000 if thorough(rep) else 1200
    rep.bound = f"candidate sets of size 2-4 (5 thorough), every alternative winner, {k} random assertion sets (0-6 NEB, 0-6 NEN incl. " \
                "redundant, duplicated and mutually inconsistent ones) plus all single-assertion sets; oracle: brute force over all orders"
    rng = rep.rng
    maxc = 5 if thorough(rep) else 4

    def fires(c, S, WO, IR):
        neb = [(WO.index(a), a[2]) for a in WO if a[0] == c and a[1] in S]
        irv = [(IR.index(a), a[2]) for a in IR if a[0] == c and a[1] == S]
        return neb, irv

    def check(cands, root, WO, IR):
        S = set(cands) - {root}
        inp = {"candidates": cands, "alt_winner": root, "NEB(loser,winner,proved)": WO, "NEN(cand,eliminated,proved)": [(a, sorted(b), p) for a, b, p in IR]}
        rep.case(inp, nontrivial=bool(WO or IR))
        try:
            tree = V.buildRemainingTreeAsLists(root, set(S), [tuple(a) for a in WO], [(a, set(b), p) for a, b, p in IR])
        except Exception as ex:
            rep.fail("buildRemainingTreeAsLists does not raise", inp, got=type(ex).__name__ + ": " + str(ex)[:80])
            return
        # oracle: an elimination order ending in root is a permutation e_1..e_k of S followed by root
        unpruned_orders = []
        for perm in itertools.permutations(sorted(S)):
            seq = list(perm) + [root]
            hit = False
            for j, c in enumerate(seq):
                nb, ir = fires(c, set(seq[:j]), WO, IR)
                if nb or ir:
                    hit = True
                    break
            if not hit:
                unpruned_orders.append(perm)
        leaves = list(_tree_leaves(tree))
        has_unpruned = any(not (n.NEBTagList or n.IRVTagList) for _, n in leaves)
        if has_unpruned != bool(unpruned_orders):
            rep.fail("an unpruned leaf exists exactly when some complete order ending in the candidate is contradicted by no assertion", inp,
                     got=has_unpruned, expected=unpruned_orders[:2])
        for path, n in leaves:
            # path = (root, c2, c3, ..., leaf): leaf is eliminated when exactly S \ {path[1:]} ... are gone
            gone = S - set(path[1:])
            cand = path[-1]
            nb, ir = fires(cand, gone, WO, IR)
            if n.NEBTagList or n.IRVTagList:
                if sorted(n.NEBTagList) != sorted(nb) or sorted(n.IRVTagList) != sorted(ir):
                    rep.fail("a pruned node is tagged with exactly the assertions that contradict it", inp, got=(n.NEBTagList, n.IRVTagList), expected=(nb, ir))
            elif nb or ir:
                rep.fail("a node some assertion contradicts is pruned", inp, got=path)
            # no ancestor of a leaf may be contradicted (pruning happens at the first contradicted node)
            for d in range(len(path) - 1):
                anc, anc_gone = path[d], S - set(path[1:d + 1]) if d > 0 else S
                a_nb, a_ir = fires(anc, anc_gone if d > 0 else set(S), WO, IR)
                if a_nb or a_ir:
                    rep.fail("expansion stops at a contradicted node", inp, got=path[:d + 1])
                    break
            try:
                tup = V.treeListToTuple([n])
            except Exception as ex:
                rep.fail("treeListToTuple does not raise", inp, got=type(ex).__name__ + ": " + str(ex)[:80])
                continue
            marker = "Unpruned leaf" in tup[1]
            if marker != (not (n.NEBTagList or n.IRVTagList)) or tup[0] != n.cand:
                rep.fail("the 'Unpruned leaf' marker is rendered exactly for untagged leaves", inp, got=tup)
            if n.NEBTagList and ("NEB " + ",".join(str(x[0]) for x in n.NEBTagList)) not in tup[1]:
                rep.fail("the rendered tag lists the numbers of the NEB assertions that prune the node", inp, got=tup)
            if n.IRVTagList and ("IRV " + ",".join(str(x[0]) for x in n.IRVTagList)) not in tup[1]:
                rep.fail("the rendered tag lists the numbers of the IRV assertions that prune the node", inp, got=tup)
        try:
            whole = V.treeListToTuple(tree)
            if whole[0] != root:
                rep.fail("the rendered tree is rooted at the alternative winner", inp, got=whole[0])
        except Exception as ex:
            rep.fail("treeListToTuple does not raise on the whole tree", inp, got=type(ex).__name__ + ": " + str(ex)[:80])

    for nc in range(2, maxc + 1):
        cands = [str(i) for i in range(1, nc + 1)]
        for root in cands:
            others = [c for c in cands if c != root]
            check(cands, root, [], [])
            for l in cands:
                for w in cands:
                    if l != w:
                        check(cands, root, [(l, w, True)], [])
            for c in cands:
                rest = [x for x in cands if x != c]
                for r in range(0, len(rest) + 1):
                    for E in itertools.combinations(rest, r):
                        check(cands, root, [], [(c, set(E), False)])
    for _ in range(k):
        nc = rng.randint(2, maxc)
        cands = [str(i) for i in range(1, nc + 1)]
        root = rng.choice(cands)
        WO = []
        for _ in range(rng.randint(0, 6)):
            l, w = rng.sample(cands, 2)
            WO.append((l, w, rng.random() < 0.5))
        IR = []
        for _ in range(rng.randint(0, 6)):
            c = rng.choice(cands)
            rest = [x for x in cands if x != c]
            IR.append((c, set(rng.sample(rest, rng.randint(0, len(rest)))), rng.random() < 0.5))
        check(cands, root, WO, IR)
    # buildPrintedResults: one tree per apparent non-winner, each over ALL the other candidates (the drawing call is intercepted to
    # read the labelled tree that would be drawn)
    import types

    def unpruned_paths(t, prefix=()):
        """paths (root first) to the leaves drawn with the 'Unpruned leaf' marker; a drawn leaf is (name, tag-string)"""
        path = prefix + (str(t[0]),)
        out = []
        for kk in t[1:]:
            if isinstance(kk, str):
                if "Unpruned leaf" in kk:
                    out.append(path)
            else:
                out.extend(unpruned_paths(kk, path))
        return out

    for _ in range(400 if thorough(rep) else 120):
        nc = rng.randint(3, maxc)
        cands = [str(i) for i in range(1, nc + 1)]
        winner = rng.choice(cands)
        nonw = [c for c in cands if c != winner]
        WO = []
        for _ in range(rng.randint(0, 5)):
            l, w = rng.sample(cands, 2)
            WO.append((l, w, rng.random() < 0.5))
        IR = []
        for _ in range(rng.randint(0, 5)):
            c = rng.choice(cands)
            rest = [x for x in cands if x != c]
            IR.append((c, set(rng.sample(rest, rng.randint(0, len(rest)))), rng.random() < 0.5))
        drawn = []
        saved_svg, saved_cap = V.svgling, getattr(V, "Caption", None)
        V.svgling = types.SimpleNamespace(draw_tree=lambda t: (drawn.append(t), t)[1])
        V.Caption = lambda tree, text: (tree, text)
        inp = {"candidates": cands, "winner": winner, "NEB(loser,winner,proved)": WO, "NEN(cand,eliminated,proved)": [(a, sorted(b), p_) for a, b, p_ in IR]}
        rep.case(("printed", tuple(cands), winner, tuple(WO), tuple((a, tuple(sorted(b)), p_) for a, b, p_ in IR)))
        try:
            V.buildPrintedResults(winner, [(c, "cand" + c) for c in nonw], [tuple(a) for a in WO], [(a, set(b), p_) for a, b, p_ in IR])
        except Exception as ex:
            rep.fail("buildPrintedResults does not raise", inp, got=type(ex).__name__ + ": " + str(ex)[:80])
            continue
        finally:
            V.svgling = saved_svg
            if saved_cap is not None:
                V.Caption = saved_cap
        if len(drawn) != len(nonw) or [str(t[0]) for t in drawn] != nonw:
            rep.fail("one tree per alternative winner, rooted at that candidate", inp, got=[str(t[0]) for t in drawn])
            continue
        for root, t in zip(nonw, drawn):
            # orders ending in `root` (first eliminated first) contradicted by no assertion
            free = []
            for order in itertools.permutations([c for c in cands if c != root]):
                full = list(order) + [root]
                hit = any(full.index(l) > full.index(w) for (l, w, _) in WO) or \
                    any(set(full[:full.index(c)]) == set(E) for (c, E, _) in IR)
                if not hit:
                    free.append(tuple(full))
            shown = unpruned_paths(t)
            if bool(shown) != bool(free):
                rep.fail("the tree drawn for an alternative winner shows an unpruned leaf exactly when some order ending in that candidate is "
                         "contradicted by no assertion", dict(inp, alt_winner=root), got=shown[:2], expected=free[:2])
    # parseAssertions: translation of assertion JSON to pruning tuples (audit log format, several contests)
    cand_file = {"List": [{"Id": i, "Description": f"cand{i}"} for i in range(1, 5)]}
    for trial in range(300 if thorough(rep) else 80):
        contests = {}
        exp = {}
        for cid in ("3", "12"):
            cands = [str(i) for i in range(1, 5)]
            winner = rng.choice(cands)
            assertions, aj, wo, ir = {}, [], [], []
            for a in range(rng.randint(1, 4)):
                w, l = rng.sample(cands, 2)
                proved = rng.random() < 0.5
                if rng.random() < 0.5:
                    aj.append({"assertion_type": "WINNER_ONLY", "winner": w, "loser": l, "already_eliminated": ""})
                    wo.append((l, w, proved))
                else:
                    E = rng.sample([c for c in cands if c not in (w, l)], rng.randint(0, 2))
                    aj.append({"assertion_type": "IRV_ELIMINATION", "winner": w, "loser": l, "already_eliminated": E})
                    ir.append((w, set(E), proved))
                assertions[f"a{a}"] = {"winner": w, "loser": l, "proved": proved}
            contests[cid] = {"choice_function": "IRV", "n_winners": 1, "winner": [winner], "candidates": cands, "assertions": assertions, "assertion_json": aj}
            exp[cid] = (winner, wo, ir)
        log = {"Audit": {"seed": 1}, "contests": contests}
        for sel in ("3", "12"):
            rep.case(("parse", trial, sel))
            try:
                (aw, _), _, wo, ir = V.parseAssertions(copy.deepcopy(log), cand_file, contest_id=sel)
            except Exception as ex:
                rep.fail("parseAssertions does not raise", {"log": log, "contest_id": sel}, got=type(ex).__name__ + ": " + str(ex)[:80])
                continue
            if aw != exp[sel][0] or wo != exp[sel][1] or ir != exp[sel][2]:
                rep.fail("WINNER_ONLY -> (loser, winner, proved); IRV_ELIMINATION -> (winner, set(already_eliminated), proved) of the selected contest",
                         {"log": log, "contest_id": sel}, got=(aw, wo, [(a, sorted(b), p) for a, b, p in ir]),
                         expected=(exp[sel][0], exp[sel][1], [(a, sorted(b), p) for a, b, p in exp[sel][2]]))
    rep.sample({"candidates": ["1", "2", "3"], "alt_winner": "2", "NEB": [["2", "1", True]], "expected": "every order in which 1 goes before 2 is pruned"})


# =========================================================================================== C04 / C15: RAIRE

def _vote_for(c, elim, ranking):
    """first preference among the standing candidates"""
    for x in ranking:
        if x not in elim:
            return x == c
    return False


def _true_assertions(cands, ballots, total, asn_func):
    """every true NEB / NEN assertion of the profile with its difficulty"""
    out = []
    for w in cands:
        for l in cands:
            if w == l:
                continue
            tw = sum(1 for b in ballots if b and b[0] == w)
            tl = sum(1 for b in ballots if l in b and (w not in b or b.index(l) < b.index(w)))
            if tw > tl:
                out.append(("NEB", w, l, frozenset(), tw, tl, asn_func(tw, tl, total - (tw + tl), total)))
            rest = [c for c in cands if c not in (w, l)]
            for r in range(0, len(rest) + 1):
                for E in itertools.combinations(rest, r):
                    E = frozenset(E)
                    tw2 = sum(1 for b in ballots if _vote_for(w, E, b))
                    tl2 = sum(1 for b in ballots if _vote_for(l, E, b))
                    if tw2 > tl2:
                        out.append(("NEN", w, l, E, tw2, tl2, asn_func(tw2, tl2, total - (tw2 + tl2), total)))
    return out


def _contradicts(a, order):
    """order: elimination order (first eliminated first, winner last)"""
    kind, w, l, E = a[0], a[1], a[2], a[3]
    if kind == "NEB":
        return order.index(w) < order.index(l)
    j = order.index(w)
    return frozenset(order[:j]) == E and l in order[j + 1:]


def _irv_winner(cands, ballots):
    """the IRV winner of a profile by the textbook rule, None on any tie for elimination"""
    standing = list(cands)
    while len(standing) > 1:
        t = {c: 0 for c in standing}
        for b in ballots:
            for c in b:
                if c in standing:
                    t[c] += 1
                    break
        m = min(t.values())
        losers = [c for c in standing if t[c] == m]
        if len(losers) > 1:
            return None
        standing.remove(losers[0])
    return standing[0]


def case_raire(rep):
    from shangrla.raire import raire_utils as RU
    from shangrla.raire.raire import compute_raire_assertions
    from shangrla.raire.sample_estimator import bp_estimate, cp_estimate
    rep.bound = "3 candidates: every multiset of <= 4 ballots (5 thorough) over all 16 partial rankings; 4 candidates: 1500 (8000) random " \
                "profiles of <= 6 ballots; 5 candidates: 900 (6000) random profiles of 4-14 ballots with their true winner; 2 candidates: <= 5 ballots; every reported winner; both difficulty functions; with and without " \
                "an order hint; contest total = #ballots and #ballots+3"
    rng = rep.rng

    def rankings(cands):
        return [tuple(p) for r in range(0, len(cands) + 1) for p in itertools.permutations(cands, r)]

    def profiles():
        c2 = ["1", "11"]            # identifiers that are prefixes / suffixes of one another, as numeric identifiers are
        for n in range(0, 6):
            for prof in itertools.combinations_with_replacement(rankings(c2), n):
                yield c2, prof
        c3 = ["1", "11", "2"]
        for n in range(0, (6 if thorough(rep) else 5)):
            for prof in itertools.combinations_with_replacement(rankings(c3), n):
                yield c3, prof
        c4 = ["1", "11", "2", "12"]
        r4 = rankings(c4)
        for _ in range(8000 if thorough(rep) else 1500):
            yield c4, tuple(rng.choice(r4) for _ in range(rng.randint(1, 6)))
        # 5 candidates: nodes deeper than the dive's own expansion exist only from 5 candidates on (best-ancestor bookkeeping)
        c5 = ["1", "11", "2", "12", "21"]
        for _ in range(6000 if thorough(rep) else 900):
            yield c5, tuple(tuple(rng.sample(c5, rng.randint(1, 5))) for _ in range(rng.randint(4, 14)))

    for cands, prof in profiles():
        ballots = [b for b in prof]
        cvrs = {i: {"con": {c: k for k, c in enumerate(b)}} for i, b in enumerate(ballots)}
        for extra in (0, 3):
            total = len(ballots) + extra
            if total == 0:
                continue
            for fname, asn_func in (("bp", bp_estimate), ("cp", cp_estimate)):
                T = _true_assertions(cands, ballots, total, asn_func)
                for winner in cands:
                    if len(cands) >= 5 and (extra or winner != _irv_winner(cands, ballots)):
                        continue        # 5 candidates: the true winner only (other winners give the empty answer, covered at 2-4 candidates)
                    alt_orders = [o for o in itertools.permutations(cands) if o[-1] != winner]
                    cover = {o: [a for a in T if _contradicts(a, o)] for o in alt_orders}
                    possible = all(cover[o] for o in alt_orders)
                    opt = max(min(a[6] for a in cover[o]) for o in alt_orders) if possible else None
                    for hint in ((), tuple(cands)) if len(cands) > 2 else ((),):
                        if hint and rng.random() < 0.6:
                            continue
                        # a positive allowed gap lets the search stop early: truth, sufficiency and "empty iff impossible" must still hold
                        # (optimality is claimed for a zero gap only); tried on 4-5 candidate profiles, where the frontier is deep enough
                        agap = 0 if (len(cands) < 4 or rng.random() < 0.7) else rng.choice([5.0, 50.0])
                        inp = {"candidates": cands, "ballots": [list(b) for b in ballots], "total": total, "winner": winner, "difficulty": fname, "order_hint": list(hint)}
                        if agap:
                            inp["agap"] = agap
                        rep.case(inp, nontrivial=len(ballots) >= 2)
                        con = RU.Contest("con", list(cands), winner, total, order=list(hint))
                        try:
                            with TimeLimit(10):
                                res = compute_raire_assertions(con, copy.deepcopy(cvrs), winner, asn_func, False, agap=agap)
                        except TimeLimit.Expired:
                            rep.fail("compute_raire_assertions returns (within 10 s on a profile of <= 6 ballots)", inp, got="no result after 10 s")
                            continue
                        except Exception as ex:
                            rep.fail("compute_raire_assertions does not raise", inp, got=type(ex).__name__ + ": " + str(ex)[:100])
                            continue
                        if any(a is None for a in res):
                            rep.fail("the result is a list of assertions", inp, got=str(res))
                            continue
                        if (res == []) != (not possible):
                            rep.fail("empty list exactly when no set of true assertions excludes every alternative winner", inp,
                                     got=[a.to_str() for a in res], expected="possible" if possible else "impossible")
                            continue
                        if not res:
                            continue
                        mine = []
                        for a in res:
                            kind = "NEB" if isinstance(a, RU.NEBAssertion) else "NEN"
                            E = frozenset(a.eliminated) if kind == "NEN" else frozenset()
                            tw = sum(a.is_vote_for_winner(r) for r in cvrs.values())
                            tl = sum(a.is_vote_for_loser(r) for r in cvrs.values())
                            if (tw, tl) != (a.votes_for_winner, a.votes_for_loser) or not tw > tl:
                                rep.fail("each assertion holds on the CVRs with exactly the reported tallies (winner strictly larger)", inp,
                                         got={"assertion": a.to_str(), "reported": (a.votes_for_winner, a.votes_for_loser), "reapplied": (tw, tl)})
                            mine.append((kind, a.winner, a.loser, E, tw, tl, a.difficulty))
                        for o in alt_orders:
                            if not any(_contradicts(a, o) for a in mine):
                                rep.fail("every elimination order ending in another candidate is contradicted by a returned assertion", inp,
                                         got={"uncovered_order": o, "assertions": [a.to_str() for a in res]})
                                break
                        if res and possible and not agap:
                            worst = max(a.difficulty for a in res)
                            if not math.isclose(worst, opt, rel_tol=1e-9):
                                rep.fail("largest difficulty of the returned set = the minimum over sufficient sets of true assertions (zero gap)", inp,
                                         got=worst, expected=opt)
    rep.sample({"candidates": ["A", "B", "C"], "ballots": [["A", "B"], ["A"], ["B", "A"], ["C", "A"]], "winner": "A", "difficulty": "bp"})



def case_escalation_pvalues(rep):
    """C10: data extended by new observations => every assertion's measured risk is non-increasing; confirmed stays confirmed"""
    from shangrla.core.NonnegMean import NonnegMean
    from shangrla.core.Audit import Assertion, Assorter, Contest, CVR
    rep.exhaustive = False
    k = 1500 if thorough(rep) else 400
    rep.bound = f"{k} random samples of length 2..14 over {{0,.25,.5,.75,1}} (and over [0,u] for comparison-like u), N in {{len..40}}, cut into 2-3 " \
                "rounds; tests alpha_mart x {shrink_trunc (f in {0,.5}), fixed alternative (inside its range)}, betting_mart x {agrapa, fixed bet}, " \
                "kaplan_markov, kaplan_wald, kaplan_kolmogorov (g=.1); plus set_p_values with a sticky proved flag"
    rng = rep.rng
    configs = [
        ("alpha/shrink_trunc f=0", lambda N: NonnegMean(test=NonnegMean.alpha_mart, estim=NonnegMean.shrink_trunc, u=1, N=N, t=.5, eta=.7)),
        ("alpha/shrink_trunc f=.5", lambda N: NonnegMean(test=NonnegMean.alpha_mart, estim=NonnegMean.shrink_trunc, u=1, N=N, t=.5, eta=.7, f=.5, d=5)),
        ("betting/agrapa", lambda N: NonnegMean(test=NonnegMean.betting_mart, bet=NonnegMean.agrapa, u=1, N=N, t=.5, lam=.6, c_grapa_0=.5, c_grapa_max=.9, c_grapa_grow=1)),
        ("betting/fixed_bet", lambda N: NonnegMean(test=NonnegMean.betting_mart, bet=NonnegMean.fixed_bet, u=1, N=N, t=.5, lam=.75)),
        ("kaplan_markov", lambda N: NonnegMean(test=NonnegMean.kaplan_markov, u=1, N=np.inf, t=.5, g=.1)),
        ("kaplan_wald", lambda N: NonnegMean(test=NonnegMean.kaplan_wald, u=1, N=np.inf, t=.5, g=.1)),
        ("kaplan_kolmogorov", lambda N: NonnegMean(test=NonnegMean.kaplan_kolmogorov, u=1, N=N, t=.5, g=.1)),
    ]
    for _ in range(k):
        L = rng.randint(2, 14)
        x = [rng.choice([0, .25, .5, .75, 1, 1, .5]) for _ in range(L)]
        if rng.random() < .3:
            x = [round(rng.random(), 3) for _ in range(L)]
        N = rng.randint(L, 40)
        cuts = sorted(rng.sample(range(1, L), min(L - 1, rng.randint(1, 2)))) + [L]
        for name, mk in configs:
            inp = {"config": name, "N": N, "x": x, "rounds": cuts}
            rep.case((name, N, tuple(x), tuple(cuts)))
            prev = None
            try:
                for c in cuts:
                    p = float(mk(N).test(np.array(x[:c]))[0])
                    if prev is not None and not (p <= prev + 1e-12):
                        # the agrapa NaN corner (K3) makes p jump to 1: recorded finding, not an escalation defect
                        known = "K3" if ("agrapa" in name and any(abs(v - .5) < 1e-12 for v in x)) else None
                        rep.fail("measured risk is non-increasing from round to round", inp, got=[prev, p], known=known)
                        break
                    prev = p
            except Exception as ex:
                rep.fail("tests do not raise on extended data", inp, got=type(ex).__name__ + ": " + str(ex)[:80])
    # confirmed stays confirmed through set_p_values
    for _ in range(200 if thorough(rep) else 60):
        con = Contest(id="c", risk_limit=0.05, cards=50, candidates=["A", "B"], winner=["A"], audit_type="POLLING")
        asns = Assertion.make_plurality_assertions(con, ["A"], ["B"], test=NonnegMean.alpha_mart, estim=NonnegMean.shrink_trunc, test_kwargs={"eta": .7})
        con.assertions = asns
        a = asns["A v B"]
        a.margin = .2
        votes = [rng.choice(["A", "A", "A", "B", None]) for _ in range(rng.randint(4, 30))]
        mv = [CVR(id=str(i), votes={"c": ({v: 1} if v else {})}) for i, v in enumerate(votes)]
        was = False
        for c in sorted(rng.sample(range(1, len(mv) + 1), min(3, len(mv)))):
            Assertion.set_p_values({"c": con}, mv[:c], None)
            rep.case(("sticky", tuple(votes), c))
            if was and not a.proved:
                rep.fail("an assertion once confirmed stays confirmed", {"votes": votes, "round_end": c})
            was = was or bool(a.proved)
    rep.sample({"config": "alpha/shrink_trunc f=.5", "N": 20, "x": [1, .5, 1, 1, 0, 1], "rounds": [2, 4, 6]})


def case_audit_find_sample_size(rep):
    """C16: at the audit level each contest's estimate is the largest among its own unconfirmed assertions"""
    from shangrla.core.Audit import Audit, Stratum, Contest, CVR
    rep.bound = "2-3 contests x 1-3 stub assertions with estimates in {3, 17, 60}, every proved/unproved pattern; style off"
    sizes = (3, 17, 60)
    combos = []
    for shape in itertools.product((1, 2), repeat=2):
        for est in itertools.product(sizes, repeat=sum(shape)):
            for proved in itertools.product((False, True), repeat=sum(shape)):
                combos.append((shape, est, proved))
    for _ in range(1500 if thorough(rep) else 400):
        shape = tuple(rep.rng.randint(1, 3) for _ in range(3))
        combos.append((shape, tuple(rep.rng.choice(sizes) for _ in range(sum(shape))), tuple(rep.rng.random() < .3 for _ in range(sum(shape)))))
    if True:
        if True:
            if True:
                for shape, est, proved in combos:
                    audit = Audit()
                    audit.strata = {"s": Stratum(use_style=False, max_cards=1000)}
                    audit.reps, audit.quantile, audit.sim_seed, audit.error_rate_1, audit.error_rate_2 = None, .5, 1, 0, 0
                    contests, k, exp = {}, 0, {}
                    for ci, na in enumerate(shape):
                        con = Contest(id=f"c{ci}", cards=1000, audit_type="POLLING")
                        con.assertions = {}
                        exp[con.id] = 0
                        for ai in range(na):
                            a = _Rec()
                            a.proved = proved[k]
                            a.find_sample_size = (lambda s: (lambda *aa, **kw: s))(est[k])
                            a.mvrs_to_data = lambda *aa, **kw: (None, 1)
                            if not proved[k]:
                                exp[con.id] = max(exp[con.id], est[k])
                            con.assertions[f"a{ai}"] = a
                            k += 1
                        contests[con.id] = con
                    inp = {"shape": shape, "estimates": est, "proved": proved}
                    rep.case(inp)
                    try:
                        total = audit.find_sample_size(contests, cvrs=None, mvr_sample=[], cvr_sample=[])
                    except Exception as ex:
                        rep.fail("Audit.find_sample_size does not raise", inp, got=type(ex).__name__ + ": " + str(ex)[:80])
                        continue
                    got = {c: contests[c].sample_size for c in contests}
                    if got != exp:
                        rep.fail("each contest's estimate is the largest among its own unconfirmed assertions", inp, got=got, expected=exp)
                    if total != max(exp.values()):
                        rep.fail("without style information the audit's estimate is the largest contest estimate", inp, got=total, expected=max(exp.values()))
    rep.sample({"shape": [2, 1], "estimates": [60, 3, 17], "proved": [False, False, False], "expected": {"c0": 60, "c1": 17}})


# =========================================================================================== C02 / C03 / C06 / C09 / C14: native companions of the deductive scripts

MARK_ENCODINGS = [0, 1, 2, True, False, "x", "", None, 0.0, 3.5]


def _truthy(v):
    return bool(v)


def case_assorters(rep):
    """C02: assorter values, ranges and the iff with the social choice function, over every mark pattern and encoding"""
    from shangrla.core.Audit import CVR, Contest, Assertion
    rep.bound = "contests with 3 candidates and 1-2 winners; every card = each candidate absent or marked with one of 10 encodings " \
                "(0,1,2,True,False,'x','',None,0.0,3.5), card lacking the contest; ballot collections of <= 3 (4) cards; shares f in {.3,.5,2/3}"
    cands = ["A", "B", "C"]
    opts = [("absent",)] + [("mark", e) for e in MARK_ENCODINGS]
    cards = []
    for combo in itertools.product(range(len(opts)), repeat=3):
        v = {}
        for c, k in zip(cands, combo):
            if opts[k][0] == "mark":
                v[c] = opts[k][1]
        cards.append({"con": v})
    cards.append({"other": {"A": 1}})
    cards.append({})
    mk = lambda d: CVR(id="c", votes=copy.deepcopy(d))
    # per-card values
    for winners in (["A"], ["A", "B"]):
        losers = [c for c in cands if c not in winners]
        con = Contest(id="con", cards=100, candidates=cands, winner=winners, n_winners=len(winners))
        asns = Assertion.make_plurality_assertions(con, winners, losers)
        if sorted(asns.keys()) != sorted(f"{w} v {l}" for w in winners for l in losers):
            rep.fail("keys = winners x losers", {"winners": winners}, got=sorted(asns.keys()))
        for d in cards:
            for w in winners:
                for l in losers:
                    rep.case(("plur", tuple(winners), json.dumps(d, default=str), w, l))
                    vw = _truthy(d.get("con", {}).get(w, False)) if "con" in d else False
                    vl = _truthy(d.get("con", {}).get(l, False)) if "con" in d else False
                    exp = (int(vw) - int(vl) + 1) / 2
                    try:
                        got = asns[f"{w} v {l}"].assorter.assort(mk(d))
                    except Exception as ex:
                        rep.fail("plurality assorter does not raise", {"card": d, "pair": [w, l]}, got=type(ex).__name__ + ": " + str(ex)[:60])
                        continue
                    if got != exp or not (0 <= got <= asns[f"{w} v {l}"].assorter.upper_bound):
                        rep.fail("plurality assorter = (w - l + 1)/2 in [0, bound]", {"card": d, "pair": [w, l]}, got=got, expected=exp)
    for f in (0.3, 0.5, 2 / 3):
        con = Contest(id="con", cards=100, candidates=cands, winner=["A"], share_to_win=f, choice_function="SUPERMAJORITY")
        asn = Assertion.make_supermajority_assertion(con, share_to_win=f, winner="A", loser=["B", "C"])["A v ALL_OTHERS"]
        for d in cards:
            rep.case(("super", f, json.dumps(d, default=str)))
            marks = [c for c in cands if "con" in d and _truthy(d["con"].get(c, False))]
            exp = ((1 if marks == ["A"] else 0) / (2 * f)) if len(marks) == 1 else 0.5
            try:
                got = asn.assorter.assort(mk(d))
            except Exception as ex:
                rep.fail("super-majority assorter does not raise", {"card": d, "share": f}, got=type(ex).__name__ + ": " + str(ex)[:60])
                continue
            if not math.isclose(got, exp) or not (0 <= got <= asn.assorter.upper_bound + 1e-15):
                rep.fail("super-majority assorter = w/(2f) for a valid ballot else 1/2, in [0, 1/(2f)]", {"card": d, "share": f}, got=got, expected=exp)
    # collections: mean > 1/2 iff the winners really won; margin from tally = 2 mean - 1
    simple = [{"con": {"A": 1}}, {"con": {"B": 1}}, {"con": {"C": 2}}, {"con": {"A": True, "B": "x"}}, {"con": {}}, {"other": {}}, {"con": {"A": 0, "C": 1}},
              {"con": {"write-in": 1}}]
    nmax = 4 if thorough(rep) else 3
    for n in range(1, nmax + 1):
        for coll in itertools.combinations_with_replacement(range(len(simple)), n):
            cl = [mk(simple[k]) for k in coll]
            votes = {c: sum(1 for k in coll if _truthy(simple[k].get("con", {}).get(c, False))) for c in cands}
            for winners in (["A"], ["A", "B"]):
                losers = [c for c in cands if c not in winners]
                con = Contest(id="con", cards=n, candidates=cands, winner=winners, n_winners=len(winners))
                asns = Assertion.make_plurality_assertions(con, winners, losers)
                rep.case(("coll", coll, tuple(winners)))
                all_gt = all(a.assorter.mean(cl, use_style=False) > 0.5 for a in asns.values())
                truth = all(votes[w] > votes[l] for w in winners for l in losers)
                if all_gt != truth:
                    rep.fail("all assorter means exceed 1/2 exactly when every winner has more votes than every loser",
                             {"cards": [simple[k] for k in coll], "winners": winners}, got=all_gt, expected=truth)
                Contest.tally({"con": con}, cl, enforce_rules=False)
                for key, a in asns.items():
                    a.find_margin_from_tally()
                    if not math.isclose(a.margin, 2 * a.assorter.mean(cl, use_style=False) - 1, abs_tol=1e-12):
                        rep.fail("margin from the vote tally = 2 mean - 1 over the same cards", {"cards": [simple[k] for k in coll], "pair": key},
                                 got=a.margin, expected=2 * a.assorter.mean(cl, use_style=False) - 1)
            for f in (0.5, 2 / 3):
                con = Contest(id="con", cards=n, candidates=cands, winner=["A"], share_to_win=f, choice_function="SUPERMAJORITY")
                asn = Assertion.make_supermajority_assertion(con, share_to_win=f, winner="A", loser=["B", "C"])["A v ALL_OTHERS"]
                valid = [k for k in coll if sum(1 for c in cands if _truthy(simple[k].get("con", {}).get(c, False))) == 1]
                wv = sum(1 for k in valid if _truthy(simple[k]["con"].get("A", False)))
                got = asn.assorter.mean(cl, use_style=False) > 0.5
                if got != (wv > f * len(valid) + 1e-12) and not math.isclose(wv, f * len(valid)):
                    rep.fail("super-majority mean exceeds 1/2 exactly when the winner's votes exceed the share of the valid votes",
                             {"cards": [simple[k] for k in coll], "share": f}, got=got, expected=(wv, len(valid)))
                # margin from the tally of the valid votes (a ballot marking more than one candidate is invalid) = 2 mean - 1
                if valid:
                    Contest.tally({"con": con}, cl, enforce_rules=True)
                    try:
                        asn.find_margin_from_tally()
                        m_t = asn.margin
                    except Exception as ex:
                        m_t = type(ex).__name__
                    m_a = 2 * asn.assorter.mean(cl, use_style=False) - 1
                    if not (isinstance(m_t, (int, float, np.floating)) and math.isclose(m_t, m_a, abs_tol=1e-12)):
                        rep.fail("super-majority: margin from the vote tally = 2 mean - 1 over the same cards",
                                 {"cards": [simple[k] for k in coll], "share": f, "tally": dict(con.tally)}, got=m_t, expected=m_a)
    rep.sample({"card": {"con": {"A": 2, "B": ""}}, "pair": ["A", "B"], "expected": 1.0})


def case_overstatement(rep):
    """C03 / C06 / C08: overstatement conventions, the population identity on whole populations, ranges, phantom scoring"""
    from shangrla.core.Audit import CVR, Contest, Assertion, Audit, Stratum
    rep.exhaustive = False
    k = 1200 if thorough(rep) else 300
    rep.bound = f"{k} random populations of 1-8 cards: CVR/MVR pairs with arbitrary discrepancies, missing contests, phantoms inside and " \
                "outside pools, 2 tally pools (each pooled or not), style on/off; assorters: plurality and super-majority (f in {.4,.6})"
    rng = rep.rng
    cands = ["A", "B"]
    for trial in range(k):
        n = rng.randint(1, 8)
        use_style = rng.random() < .5
        kind = rng.choice(["plur", "super"])
        f = rng.choice([.4, .6])
        pool_on = {"p1": rng.random() < .5, "p2": rng.random() < .5}
        cvrs, mvrs = [], []
        for i in range(n):
            tp = rng.choice(["p1", "p2"])
            ph = rng.random() < .2
            lists = rng.random() < .8
            votes = {"con": {rng.choice(cands): 1} if rng.random() < .8 else {}} if (lists and not ph) else ({"con": {}} if lists else {"oth": {}})
            cvrs.append(CVR(id=str(i), votes=votes, phantom=ph, tally_pool=tp, pool=pool_on[tp]))
            mph = rng.random() < .2
            mvotes = {"con": {rng.choice(cands): 1} if rng.random() < .8 else {}} if rng.random() < .85 else {"oth": {}}
            mvrs.append(CVR(id=str(i), votes=mvotes if not mph else {}, phantom=mph))
        cvrs = CVR.merge_cvrs(cvrs)
        pools = CVR.pool_contests(cvrs)
        CVR.add_pool_contests(cvrs, pools)
        if kind == "plur":
            con = Contest(id="con", cards=n, candidates=cands, winner=["A"], audit_type="ONEAUDIT", use_style=use_style)
            asn = Assertion.make_plurality_assertions(con, ["A"], ["B"])["A v B"]
        else:
            con = Contest(id="con", cards=n, candidates=cands, winner=["A"], share_to_win=f, choice_function="SUPERMAJORITY", audit_type="ONEAUDIT", use_style=use_style)
            asn = Assertion.make_supermajority_assertion(con, share_to_win=f, winner="A", loser=["B"])["A v ALL_OTHERS"]
        audit = Audit()
        audit.strata = {"s": Stratum(use_style=use_style, max_cards=n)}
        pop = [i for i in range(n) if (not use_style) or cvrs[i].has_contest("con")]
        if not pop:
            continue
        inp = {"trial": trial, "seed": rep.seed, "n": n, "use_style": use_style, "kind": kind, "f": f,
               "cvrs": [{"votes": c.votes, "phantom": c.phantom, "pool": c.pool, "tally_pool": c.tally_pool} for c in cvrs],
               "mvrs": [{"votes": m.votes, "phantom": m.phantom} for m in mvrs]}
        rep.case(inp)
        try:
            asn.assorter.set_tally_pool_means(cvr_list=cvrs, use_style=use_style)
            asn.set_margin_from_cvrs(audit, cvrs)
            u, v = asn.assorter.upper_bound, asn.margin
            B = [asn.overstatement_assorter(mvrs[i], cvrs[i], use_style=use_style) for i in pop]
        except Exception as ex:
            rep.fail("overstatement assorter does not raise on the cards under audit", inp, got=type(ex).__name__ + ": " + str(ex)[:80])
            continue
        A = []
        for i in pop:
            if mvrs[i].phantom or (use_style and not mvrs[i].has_contest("con")):
                A.append(0.0)
            else:
                A.append(asn.assorter.assort(mvrs[i]))
        lhs = np.mean(B) - 0.5
        rhs = (2 * np.mean(A) - 1) / (2 * (2 * u - v))
        if not math.isclose(lhs, rhs, abs_tol=1e-9):
            rep.fail("mean(B) - 1/2 = (2 mean(A) - 1)/(2(2u - v)) over the cards under audit", inp, got=lhs, expected=rhs)
        ub = 2 / (2 - v / u)
        if v > 0 and not all(-1e-12 <= b <= ub + 1e-12 for b in B):
            rep.fail("0 <= B <= 2/(2 - v/u)", inp, got=[min(B), max(B)], expected=[0, ub])
        for i in pop:
            ph = CVR(id="x", votes={}, phantom=True)
            if asn.overstatement_assorter(ph, cvrs[i], use_style=use_style) > asn.overstatement_assorter(mvrs[i], cvrs[i], use_style=use_style) + 1e-12:
                rep.fail("replacing a manual record by a phantom never increases the overstatement assorter", inp, got=i)
            if cvrs[i].phantom and not cvrs[i].pool:
                o = asn.assorter.overstatement(CVR(id="y", votes={"con": {}}), cvrs[i], use_style=use_style)
                if not math.isclose(o, 0.5 - 0.5):
                    rep.fail("an un-pooled phantom CVR is scored as a non-vote (1/2)", inp, got=o)
    rep.sample({"kind": "plur", "n": 2, "use_style": True})


def case_data_and_pvalues(rep):
    """C06 / C07 / C09: mvrs_to_data filter, bound and range; set_p_values / summarize_status / reset on real tests"""
    from shangrla.core.Audit import CVR, Contest, Assertion, Audit
    from shangrla.core.NonnegMean import NonnegMean
    rep.exhaustive = False
    k = 800 if thorough(rep) else 250
    rep.bound = f"{k} random samples of 1-10 (MVR, CVR) pairs, 1-3 contests with different risk limits / audit types / social choice functions"
    rng = rep.rng
    for trial in range(k):
        contests = {}
        ncon = rng.randint(1, 3)
        n = rng.randint(1, 10)
        use_style = rng.random() < .5
        cvrs, mvrs = [], []
        for i in range(n):
            cv, mv = {}, {}
            for ci in range(ncon):
                if rng.random() < .75:
                    cv[f"c{ci}"] = {rng.choice(["A", "B"]): 1}
                if rng.random() < .8:
                    mv[f"c{ci}"] = {rng.choice(["A", "B"]): 1}
            cvrs.append(CVR(id=str(i), votes=cv, phantom=rng.random() < .1, sample_num=rng.random()))
            mvrs.append(CVR(id=str(i), votes=mv, phantom=rng.random() < .1))
        for ci in range(ncon):
            at = rng.choice(["POLLING", "CARD_COMPARISON", "ONEAUDIT"])
            sup = rng.random() < .3
            thr = rng.random()
            con = Contest(id=f"c{ci}", cards=40, candidates=["A", "B"], winner=["A"], risk_limit=rng.choice([.01, .05, .2]), audit_type=at,
                          use_style=use_style, sample_threshold=thr, share_to_win=.6 if sup else None,
                          choice_function="SUPERMAJORITY" if sup else "PLURALITY", test=NonnegMean.alpha_mart, estim=NonnegMean.shrink_trunc)
            if sup:
                con.assertions = Assertion.make_supermajority_assertion(con, share_to_win=.6, winner="A", loser=["B"], test=NonnegMean.alpha_mart,
                                                                        estim=NonnegMean.shrink_trunc, test_kwargs={"eta": .7})
            else:
                con.assertions = Assertion.make_plurality_assertions(con, ["A"], ["B"], test=NonnegMean.alpha_mart, estim=NonnegMean.shrink_trunc,
                                                                     test_kwargs={"eta": .7})
            for a in con.assertions.values():
                a.margin = rng.choice([.05, .2, .5])
            contests[con.id] = con
        inp = {"trial": trial, "seed": rep.seed}
        rep.case(inp)
        ok_all = True
        try:
            for con in contests.values():
                for a in con.assertions.values():
                    comparison = con.audit_type != "POLLING"
                    if comparison and use_style and any(not cvrs[i].has_contest(con.id) and False for i in range(n)):
                        pass
                    # the property's wording of who contributes
                    if comparison:
                        idx = [i for i in range(n) if (not use_style) or (cvrs[i].has_contest(con.id) and cvrs[i].sample_num <= con.sample_threshold)]
                    else:
                        idx = list(range(n))
                    try:
                        d, u = a.mvrs_to_data(mvrs, cvrs)
                    except ValueError:
                        continue
                    ua = a.assorter.upper_bound
                    exp_u = 2 / (2 - a.margin / ua) if comparison else ua
                    if not math.isclose(u, exp_u):
                        rep.fail("u = assorter bound (polling) / 2/(2 - v/u_a) (comparison)", inp, got=u, expected=exp_u)
                    if comparison:
                        exp_d = [a.overstatement_assorter(mvrs[i], cvrs[i], use_style=use_style) for i in idx]
                    else:
                        exp_d = [a.assorter.assort(mvrs[i]) for i in idx]
                    if len(d) != len(exp_d) or not np.allclose(d, exp_d):
                        rep.fail("only cards whose CVR lists the contest and whose sample number is within the threshold contribute, in order", inp,
                                 got=list(map(float, d)), expected=exp_d)
                    if len(d) and not (min(d) >= -1e-12 and max(d) <= u + 1e-12):
                        rep.fail("data lie in [0, u]", inp, got=[float(min(d)), float(max(d))], expected=[0, u])
            pmax = Assertion.set_p_values(contests, mvrs, cvrs)
        except Exception as ex:
            continue
        worst = 0
        for con in contests.values():
            ps = []
            for key, a in con.assertions.items():
                d, u = a.mvrs_to_data(mvrs, cvrs)
                a.test.u = u
                p, hist = a.test.test(d) if len(d) else (a.p_value, a.p_history)
                if len(d) and (not math.isclose(a.p_value, p) or len(a.p_history) != len(hist)):
                    rep.fail("recorded p-value and history are what the assertion's configured test returns on its data", inp, got=a.p_value, expected=p)
                ps.append(a.p_value)
                if not (a.p_value <= con.risk_limit) == bool(a.proved) and not a.proved:
                    rep.fail("proved reflects p <= the contest's own risk limit", inp)
                ok_all = ok_all and a.p_value <= con.risk_limit
            if con.max_p != max(ps):
                rep.fail("a contest's measured risk is the largest p-value among its assertions", inp, got=con.max_p, expected=max(ps))
            worst = max(worst, max(ps))
        if pmax != worst:
            rep.fail("the audit's measured risk is the largest among contests", inp, got=pmax, expected=worst)
        aud = Audit()
        if bool(aud.summarize_status(contests)) != ok_all:
            rep.fail("complete iff every assertion of every contest has p <= that contest's own risk limit", inp)
        Assertion.reset_p_values(contests)
        for con in contests.values():
            for key, a in con.assertions.items():
                if a.p_value != 1 or list(a.p_history) != [] or a.proved or con.p_values[key] != 1 or con.proved[key]:
                    rep.fail("reset restores p-value 1, empty history and unconfirmed status everywhere", inp)
            if con.max_p != 1:
                rep.fail("reset restores max_p = 1", inp)
    rep.sample({"n": 3, "contests": 2})


def case_irv_predicates(rep):
    """C14 / C04: the audit's IRV assorters vs the generator's verdicts on every partial ranking (native), 3-5 candidates"""
    from shangrla.core.Audit import CVR, Contest, Assertion
    from shangrla.raire.raire_utils import NEBAssertion, NENAssertion
    rep.bound = "candidate sets of size 3-4 (5 thorough) with numeric ids that are substrings of one another; every partial ranking; every (winner, loser) pair; " \
                "every eliminated set not containing them; generator-side contest identifier a string and the integer 1"
    for nc in range(3, 6 if thorough(rep) else 5):
        cands = ["1", "2", "12", "21", "121"][:nc]
        con = Contest(id="con", cards=10, candidates=cands, winner=[cands[0]], choice_function="IRV")
        ranks = [p for r in range(0, nc + 1) for p in itertools.permutations(cands, r)]
        for w, l in itertools.permutations(cands, 2):
            rest = [c for c in cands if c not in (w, l)]
            js = [{"winner": w, "loser": l, "assertion_type": "WINNER_ONLY", "already_eliminated": ""}]
            nebs = Assertion.make_assertions_from_json(con, cands, js)
            neb = NEBAssertion("con", w, l)
            sets = [E for r in range(0, len(rest) + 1) for E in itertools.combinations(rest, r)]
            nens = []
            for E in sets:
                js = [{"winner": w, "loser": l, "assertion_type": "IRV_ELIMINATION", "already_eliminated": list(E)}]
                nens.append((E, list(Assertion.make_assertions_from_json(con, cands, js).values())[0], NENAssertion("con", w, l, list(E))))
            # the generator keys ballots by whatever identifier the contest carries (its text loader uses the integer 1)
            neb_i = NEBAssertion(1, w, l)
            nens_i = [NENAssertion(1, w, l, list(E)) for E in sets]
            for rk in ranks:
                cvr = CVR(id="b", votes={"con": {c: k + 1 for k, c in enumerate(rk)}})
                rcvr = {"con": {c: k for k, c in enumerate(rk)}}
                rep.case((nc, w, l, rk))
                got = list(nebs.values())[0].assorter.assort(cvr)
                exp = (neb.is_vote_for_winner(rcvr) - neb.is_vote_for_loser(rcvr) + 1) / 2
                if got != exp:
                    rep.fail("WINNER_ONLY assorter = (w - l + 1)/2 of the generator's NEB verdicts", {"ranking": rk, "winner": w, "loser": l}, got=got, expected=exp)
                rcvr_i = {1: rcvr["con"]}
                if (neb_i.is_vote_for_winner(rcvr_i), neb_i.is_vote_for_loser(rcvr_i)) != (neb.is_vote_for_winner(rcvr), neb.is_vote_for_loser(rcvr)):
                    rep.fail("the generator's NEB verdicts do not depend on the type of the contest identifier", {"ranking": rk, "winner": w, "loser": l},
                             got=[neb_i.is_vote_for_winner(rcvr_i), neb_i.is_vote_for_loser(rcvr_i)], expected=[neb.is_vote_for_winner(rcvr), neb.is_vote_for_loser(rcvr)])
                for (E, a_asn, nen), nen_i in zip(nens, nens_i):
                    if (nen_i.is_vote_for_winner(rcvr_i), nen_i.is_vote_for_loser(rcvr_i)) != (nen.is_vote_for_winner(rcvr), nen.is_vote_for_loser(rcvr)):
                        rep.fail("the generator's NEN verdicts do not depend on the type of the contest identifier", {"ranking": rk, "winner": w, "loser": l, "eliminated": E},
                                 got=[nen_i.is_vote_for_winner(rcvr_i), nen_i.is_vote_for_loser(rcvr_i)], expected=[nen.is_vote_for_winner(rcvr), nen.is_vote_for_loser(rcvr)])
                    got = a_asn.assorter.assort(cvr)
                    exp = (nen.is_vote_for_winner(rcvr) - nen.is_vote_for_loser(rcvr) + 1) / 2
                    if got != exp:
                        rep.fail("IRV_ELIMINATION assorter = (w - l + 1)/2 of the generator's NEN verdicts",
                                 {"ranking": rk, "winner": w, "loser": l, "eliminated": E}, got=got, expected=exp)
    rep.sample({"ranking": ["2", "12", "1"], "winner": "1", "loser": "2", "eliminated": ["12"]})


# =========================================================================================== C12 / C11 / C13: integer-typed samples

def case_nonneg_dtype(rep):
    """The deductive obligations model observations as (extended) reals.  The published definitions do not depend on how the
    observations are typed, so every test / estimator / bet must return the same history for a sample given as Python ints, as an
    integer numpy array and as a float array with the same values (the float run is the one the obligations are about)."""
    from shangrla.core.NonnegMean import NonnegMean
    lens = (1, 2, 3, 4) if not thorough(rep) else (1, 2, 3, 4, 5, 6)
    rep.bound = f"all samples over {{0,1}} (u=1) and {{0,1,2}} (u=2) of length {lens}, N in {{inf, len+3}}, each test with each shipped estimator / bet"
    configs = []
    for est in ("fixed_alternative_mean", "shrink_trunc", "optimal_comparison"):
        configs.append(("alpha_mart", {"estim": est}))
    for bet in ("fixed_bet", "agrapa"):
        configs.append(("betting_mart", {"bet": bet}))
    for tname in ("kaplan_markov", "kaplan_wald", "kaplan_kolmogorov", "wald_sprt"):
        configs.append((tname, {}))

    def same(a, b):
        a, b = np.asarray(a, dtype=float), np.asarray(b, dtype=float)
        return a.shape == b.shape and np.allclose(a, b, rtol=1e-12, atol=1e-15, equal_nan=True)

    for u, vals in ((1, (0, 1)), (2, (0, 1, 2))):
        for n in lens:
            for xs in itertools.product(vals, repeat=n):
                if len(vals) == 3 and n > 4:
                    continue
                for N in (np.inf, n + 3):
                    for tname, kw in configs:
                        if tname in ("kaplan_kolmogorov",) and N == np.inf:
                            continue
                        if tname in ("kaplan_markov", "kaplan_wald") and N != np.inf:
                            continue
                        inp = {"test": tname, "u": u, "N": ("inf" if N == np.inf else N), "x": list(xs), **{k: v for k, v in kw.items()}}
                        outs = {}
                        for label, x in (("float array", np.array(xs, dtype=float)), ("int array", np.array(xs, dtype=int)), ("list of ints", list(xs))):
                            try:
                                kwargs = dict(u=u, N=N, t=u / 2 if u == 1 else 0.75, eta=0.75 * u, lam=0.5 / u, g=0.1)
                                if "estim" in kw:
                                    kwargs["estim"] = getattr(NonnegMean, kw["estim"])
                                if "bet" in kw:
                                    kwargs["bet"] = getattr(NonnegMean, kw["bet"])
                                kwargs["test"] = getattr(NonnegMean, tname)
                                t = NonnegMean(**kwargs)
                                with np.errstate(all="ignore"):
                                    p, hist = t.test(x)
                                outs[label] = ("ok", float(p), np.asarray(hist, dtype=float).tolist())
                            except Exception as ex:
                                outs[label] = ("raise", type(ex).__name__, None)
                        rep.case(inp)
                        ref = outs["float array"]
                        for label in ("int array", "list of ints"):
                            o = outs[label]
                            if ref[0] == "raise" or o[0] == "raise":
                                # a sample the float run accepts must be accepted whatever its typing (a list may be rejected where
                                # the code documents an array argument: only the int ARRAY is held to this)
                                if ref[0] == "ok" and o[0] == "raise" and label == "int array":
                                    rep.fail("integer-typed sample accepted like the float sample", inp, got=o[1])
                                continue
                            if not (same([o[1]], [ref[1]]) and same(o[2], ref[2])):
                                rep.fail("history and p-value do not depend on the numeric type of the observations", dict(inp, typing=label),
                                         got={"p": o[1], "history": o[2]}, expected={"p": ref[1], "history": ref[2]})
    rep.sample({"test": "betting_mart", "bet": "fixed_bet", "x": [1, 0, 1], "typing": "int array"})
    rep.exhaustive = True


# =========================================================================================== C11 / C12 / C01: the published definitions, natively

def case_nonneg_definitions(rep):
    """An engine-independent net under the deductive obligations: every test, built through the real constructor, run natively on
    every small sample over {0, u/2, u}; histories compared with the published products (C12) inside the regime without boundary
    conventions (0 < mu_i < u, total <= N t), and the well-formedness clauses (C11) on every sample."""
    from shangrla.core.NonnegMean import NonnegMean
    lens = (1, 2, 3, 4) if not thorough(rep) else (1, 2, 3, 4, 5)
    rep.bound = f"u in {{1, 1.25}}, samples over {{0, u/2, u}} of length {lens}, N in {{inf, len+2}}, random_order in {{True, False}}, " \
                "t in {1/2, 0.4}; every test with every shipped estimator / bet"
    configs = [("alpha_mart", {"estim": e}) for e in ("fixed_alternative_mean", "shrink_trunc", "optimal_comparison")] + \
              [("betting_mart", {"bet": b}) for b in ("fixed_bet", "agrapa")] + \
              [(tn, {}) for tn in ("kaplan_markov", "kaplan_wald", "kaplan_kolmogorov", "wald_sprt")]
    for u in (1.0, 1.25):
        for t in (0.5, 0.4):
            for n in lens:
                for xs in itertools.product((0.0, u / 2, u), repeat=n):
                    x = np.array(xs)
                    for N in (np.inf, n + 2):
                        for ro in (True, False):
                            for tname, kw, g in [(a_, b_, g_) for a_, b_ in configs for g_ in ((0.1, 0.0) if a_.startswith("kaplan") else (0.1,))]:
                                if tname == "kaplan_kolmogorov" and N == np.inf:
                                    continue
                                if tname in ("kaplan_markov", "kaplan_wald") and N != np.inf:
                                    continue
                                if tname == "wald_sprt" and N != np.inf and not ro:
                                    continue
                                if kw.get("estim") == "optimal_comparison" and u == 1.0:
                                    continue            # (known finding K2: division by zero at u = 1, recorded with the deductive obligations)
                                args = dict(test=getattr(NonnegMean, tname), u=u, N=N, t=t, random_order=ro, g=g, eta=(t + u) / 2, lam=0.5 / u)
                                for k_, v_ in kw.items():
                                    args[k_] = getattr(NonnegMean, v_)
                                inp = {"test": tname, **kw, "u": u, "t": t, "g": g, "N": ("inf" if N == np.inf else N), "random_order": ro, "x": list(xs)}
                                rep.case(inp, nontrivial=n >= 2)
                                try:
                                    obj = NonnegMean(**args)
                                    with np.errstate(all="ignore"):
                                        p, hist = obj.test(x.copy())
                                    hist = np.asarray(hist, dtype=float)
                                except Exception as ex:
                                    rep.fail("the test returns", inp, got=type(ex).__name__ + ": " + str(ex)[:80])
                                    continue
                                S_prev = np.insert(np.cumsum(x), 0, 0)[:-1]
                                j = np.arange(1, n + 1)
                                mu = (N * t - S_prev) / (N - j + 1) if N != np.inf else t * np.ones(n)
                                inside = bool(np.all(mu > 1e-9) and np.all(mu < u - 1e-9) and (N == np.inf or x.sum() <= N * t - 1e-9))
                                # known findings K1-K4, K6, K9 live outside this regime or in NaN corners: only finite, inside cases are compared
                                exp = None
                                with np.errstate(all="ignore"):
                                    if tname == "kaplan_markov":
                                        exp = np.cumprod((x + g) / (t + g))
                                    elif tname == "kaplan_wald":
                                        exp = np.cumprod((1 - g) * x / t + g)
                                    elif tname == "kaplan_kolmogorov" and inside:
                                        exp = np.cumprod((x + g) / (mu + g))
                                    elif tname == "wald_sprt" and inside:
                                        eta0 = args["eta"]
                                        etaj = (N * eta0 - S_prev) / (N - j + 1) if N != np.inf else eta0 * np.ones(n)
                                        if np.all(etaj > 1e-9) and np.all(etaj < u - 1e-9):
                                            exp = np.cumprod((x * etaj / mu + (u - x) * (u - etaj) / (u - mu)) / u)
                                    elif tname == "alpha_mart" and inside:
                                        etaj = np.asarray(obj.estim(x.copy()), dtype=float)
                                        if np.all(np.isfinite(etaj)) and np.all(etaj >= 0) and np.all(etaj <= u):
                                            exp = np.cumprod((x * etaj / mu + (u - x) * (u - etaj) / (u - mu)) / u)
                                    elif tname == "betting_mart" and inside:
                                        lam = np.asarray(obj.bet(x.copy()), dtype=float)
                                        if np.all(np.isfinite(lam)) and np.all(lam >= 0) and np.all(lam * mu <= 1 + 1e-12):
                                            exp = np.cumprod(1 + lam * (x - mu))
                                    if exp is not None and np.all(np.isfinite(exp)) and np.all(exp >= 0):
                                        want = np.minimum(1, 1 / exp)
                                        if not (hist.shape == want.shape and np.allclose(hist, want, rtol=1e-9, atol=1e-12)):
                                            rep.fail("history = min(1, 1/T_j) with the published product T_j", inp, got=hist.tolist(), expected=want.tolist())
                                            continue
                                        finite_ok = True
                                    else:
                                        finite_ok = False
                                if finite_ok:
                                    if len(hist) != n or np.any(np.isnan(hist)) or np.any(hist < 0) or np.any(hist > 1) or not (0 <= p <= 1):
                                        rep.fail("one history entry per observation, every entry and p in [0,1], never NaN", inp, got={"p": float(p), "history": hist.tolist()})
                                    elif tname not in ("alpha_mart", "betting_mart"):
                                        # (alpha_mart / betting_mart report the smallest entry whatever random_order says: recorded behaviour,
                                        #  outside this clause; the other tests follow the declared order)
                                        want_p = float(np.min(hist)) if ro else float(hist[-1])
                                        if not math.isclose(float(p), want_p, rel_tol=1e-9, abs_tol=1e-12):
                                            rep.fail("overall p = smallest entry in random order, last entry otherwise", inp, got=float(p), expected=want_p)
    rep.sample({"test": "kaplan_wald", "u": 1.0, "t": 0.5, "N": "inf", "random_order": False, "x": [1.0, 0.0, 1.0]})


def case_nonneg_nonanticipation(rep):
    """C05 stated natively for *every* test and estimator / bet the library ships (the deductive scripts prove it for the martingale
    tests and the adaptive estimators; the Kaplan and SPRT tests have no estimator to shift, so their non-anticipation is checked
    here): two samples that agree in their first k draws have histories that agree in the first k entries; truncation leaves the
    first k-1 entries unchanged and can only lower the k-th; the alternative / bet applied to draw j does not change with draws
    j, j+1, ... ."""
    from shangrla.core.NonnegMean import NonnegMean
    lens = (2, 3, 4) if not thorough(rep) else (2, 3, 4, 5)
    rep.bound = f"u in {{1, 1.25}}, samples over {{0, u/2, u}} of length {lens}, every cut point, N in {{inf, len+2}}, t in {{1/2, 0.4}}, " \
                "random order; every test with every shipped estimator / bet, shrink_trunc with f in {0, 0.1}"
    configs = [("alpha_mart", {"estim": "fixed_alternative_mean"}, {}), ("alpha_mart", {"estim": "shrink_trunc"}, {}),
               ("alpha_mart", {"estim": "shrink_trunc"}, {"f": 0.1, "d": 2}), ("alpha_mart", {"estim": "optimal_comparison"}, {}),
               ("betting_mart", {"bet": "fixed_bet"}, {}), ("betting_mart", {"bet": "agrapa"}, {}),
               ("kaplan_markov", {}, {}), ("kaplan_wald", {}, {}), ("kaplan_kolmogorov", {}, {}), ("wald_sprt", {}, {})]

    def same(a, b):
        return a.shape == b.shape and np.allclose(a, b, rtol=1e-9, atol=1e-12, equal_nan=True)

    for u in (1.0, 1.25):
        for t in (0.5, 0.4):
            for N_inf in (True, False):
                for tname, kw, extra in configs:
                    if tname == "kaplan_kolmogorov" and N_inf:
                        continue
                    if tname in ("kaplan_markov", "kaplan_wald") and not N_inf:
                        continue
                    if kw.get("estim") == "optimal_comparison" and u == 1.0:
                        continue                        # (known finding K2, recorded with the deductive obligations)
                    for n in lens:
                        N = np.inf if N_inf else n + 2
                        args = dict(test=getattr(NonnegMean, tname), u=u, N=N, t=t, random_order=True, g=0.1, eta=(t + u) / 2, lam=0.5 / u, **extra)
                        for k_, v_ in kw.items():
                            args[k_] = getattr(NonnegMean, v_)
                        memo = {}

                        def run(xs):
                            if xs not in memo:
                                try:
                                    obj = NonnegMean(**args)
                                    with np.errstate(all="ignore"):
                                        p, h = obj.test(np.array(xs))
                                        aux = None
                                        if tname == "alpha_mart":
                                            aux = np.asarray(NonnegMean(**args).estim(np.array(xs)), dtype=float) * np.ones(len(xs))
                                        elif tname == "betting_mart":
                                            aux = np.asarray(NonnegMean(**args).bet(np.array(xs)), dtype=float) * np.ones(len(xs))
                                    memo[xs] = (np.asarray(h, dtype=float), aux)
                                except Exception:
                                    memo[xs] = None     # (whether the test returns at all is C11's clause)
                            return memo[xs]

                        for xs in itertools.product((0.0, u / 2, u), repeat=n):
                            full = run(xs)
                            if full is None:
                                continue
                            for k in range(1, n):
                                inp = {"test": tname, **kw, **extra, "u": u, "t": t, "N": ("inf" if N_inf else N), "x": list(xs), "k": k}
                                rep.case(inp, nontrivial=True)
                                other = xs[:k] + (0.0,) * (n - k)       # the representative of all samples with these first k draws
                                o = run(other)
                                if o is not None and other != xs:
                                    if not same(full[0][:k], o[0][:k]):
                                        rep.fail("samples that agree in their first k draws have histories that agree in the first k entries",
                                                 {**inp, "other": list(other)}, got=full[0][:k].tolist(), expected=o[0][:k].tolist())
                                    if full[1] is not None and o[1] is not None and not same(full[1][:k + 1], o[1][:k + 1]):
                                        rep.fail("the alternative / bet applied to draw j is unaffected by draws j, j+1, ...",
                                                 {**inp, "other": list(other)}, got=full[1][:k + 1].tolist(), expected=o[1][:k + 1].tolist())
                                if True:
                                    # truncation (the declared population size stays what it was)
                                    tr = run(xs[:k])
                                    if tr is not None:
                                        if not same(tr[0][:k - 1], full[0][:k - 1]):
                                            rep.fail("truncation leaves the first k-1 entries unchanged", inp, got=tr[0].tolist(), expected=full[0][:k].tolist())
                                        elif not (np.isnan(tr[0][k - 1]) and np.isnan(full[0][k - 1])) and not (tr[0][k - 1] <= full[0][k - 1] + 1e-12):
                                            rep.fail("truncation can only lower the k-th entry", inp, got=float(tr[0][k - 1]), expected=float(full[0][k - 1]))
    rep.sample({"test": "wald_sprt", "u": 1.0, "t": 0.5, "N": 5, "x": [1.0, 0.0, 1.0], "k": 2})
