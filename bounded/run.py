"""Bounded stand-ins (labelled bounded, never counted as proved): exhaustive small-scope run-time contract checking of the
REAL functions under /venv/bin/python.  Usage: /venv/bin/python bounded/run.py <case> <tier> <seed>   -> JSON on stdout"""
import sys
import os
import json
import time
import warnings

warnings.simplefilter("ignore")
HERE = os.path.dirname(os.path.abspath(__file__))
sys.path.insert(0, os.environ.get("SHANGRLA_REPO", "/repo"))
sys.path.insert(0, HERE)


def main():
    name, tier, seed = sys.argv[1], sys.argv[2], int(sys.argv[3])
    import cases
    t0 = time.time()
    rep = cases.Report(name, tier, seed)
    try:
        getattr(cases, "case_" + name)(rep)
    except Exception as e:
        import traceback
        rep.error = traceback.format_exc()[-1500:]
    out = rep.as_dict()
    out["wall_s"] = round(time.time() - t0, 2)
    sys.stdout.write("@@BOUNDED@@" + json.dumps(out, default=str))


if __name__ == "__main__":
    main()
