#!/usr/bin/env python3
"""check.py <PROPERTY> [--tier quick|thorough]      decide one property on /repo's current working tree
   check.py --replay <replay.json>                 re-run a recorded counterexample on the real code

Exit: 0 property held on everything explored (known findings printed as KNOWN-FINDING lines)
      1 violation (line  VIOLATION property=<id> replay=<path> [no-failing-input-found])
      2 undecided (solver unknown / timeout on both back ends) -- never reported as a violation
      3 engine error (unsupported construct, crash)
"""
import sys
import os
import json
import time
import hashlib
import importlib
import subprocess
import collections
import multiprocessing as mp

ROOT = os.path.dirname(os.path.dirname(os.path.abspath(__file__)))
sys.path.insert(0, ROOT)
REPO = os.environ.get("SHANGRLA_REPO", "/repo")
NATIVE_PY = os.environ.get("SHANGRLA_PY", "/venv/bin/python")
CONTRACT_MODULES = ["contracts.nonneg", "contracts.audit", "contracts.sampling", "contracts.raire", "contracts.formats",
                    "contracts.irvtree"]


def load_scripts():
    out = []
    for m in CONTRACT_MODULES:
        try:
            mod = importlib.import_module(m)
        except ModuleNotFoundError as e:
            if e.name == m:
                continue
            raise
        out.extend(mod.SCRIPTS)
    return out


def find_script(name):
    for d in load_scripts():
        if d["name"] == name:
            return d
    raise KeyError(name)


def clause_of(full, label):
    s = full[len(label) + 1:] if full.startswith(label + "/") else full
    return s.rsplit("/path", 1)[0]


def res_dict(r, label):
    d = r.as_dict()
    d["clause"] = clause_of(r.name, label)
    d["known_id"] = getattr(r, "known_id", None)
    d["props"] = getattr(r, "props", None)
    if r.smt:
        d["smt"] = r.smt
    return d


def native_run(call, inputs, repo=REPO):
    req = {"repo": repo, "call": call, "inputs": inputs}
    p = subprocess.run([NATIVE_PY, os.path.join(ROOT, "replay", "run.py")], input=json.dumps(req),
                       capture_output=True, text=True, timeout=600, cwd="/")
    if p.returncode != 0:
        return {"ok": False, "harness_error": p.stderr[-800:]}
    return json.loads(p.stdout)


def replay_inputs(desc, inputs, repo=REPO, call=None):
    """run the real code natively on `inputs`, then evaluate the script's clauses on the native result"""
    from pyvc.driver import run_script
    if call is None:
        # the native call descriptor is produced by the script itself (refute mode, same sizes)
        probe = run_script(desc, mode="refute", sizes=collections.defaultdict(lambda: None, {k: v for k, v in inputs.items() if isinstance(v, int)}), repo=repo)
        call = getattr(probe, "native_desc", None)
    if call is None:
        return {"status": "no-native-adapter"}
    out = native_run(call, inputs, repo)
    if "harness_error" in out:
        return {"status": "harness-error", "detail": out["harness_error"]}
    S = run_script(desc, mode="replay", pinned=inputs, native=out, repo=repo)
    verdicts = list(S.replay_verdicts)
    return {"status": "replayed", "native": out, "verdicts": verdicts, "call": call,
            "error": S.error}


def job(args):
    """one proof script: proof mode, then refutation + native replay of failed obligations"""
    name, tier, repo = args
    from pyvc.driver import run_script
    desc = find_script(name)
    t0 = time.time()
    S = run_script(desc, repo=repo)
    results = [res_dict(r, S.label) for r in S.results]
    fallback = None
    if S.error and S.error[0] == "crash" and desc.get("optional"):
        # an optional unbounded script whose summaries meet a code shape they were not written for: skipped (reported), never an
        # engine error -- the structure-bounded scripts and bounded stand-ins of the same clauses still decide the property
        S.error = ("not-applicable", "the script's loop summaries do not fit the current code shape (internal error: " + str(S.error[1])[-160:].replace("\n", " ") + ")")
        results = []
    if S.error and S.error[0] == "unsupported":
        # the current code uses a construct outside the VC generator's subset (typically a new loop over a symbolic-length array).
        # Never an alarm: an optional (unbounded) script is skipped; a script over a symbolic length falls back to the same
        # obligations at concrete lengths (every value still symbolic), reported as a BOUNDED fallback and not counted as proved.
        reason = str(S.error[1])
        if desc.get("optional"):
            S.error = ("not-applicable", "construct outside the VC generator's subset in the current code (" + reason + ")")
            results = []
        elif getattr(S, "used_length", False):
            sizes_fb = list(range(1, 5) if tier == "quick" else range(1, 7))
            fb_results, ok = [], True
            for n in sizes_fb:
                S2 = run_script(desc, mode="refute", sizes=collections.defaultdict(lambda n=n: n), repo=repo)
                if S2.error:
                    ok = False
                    break
                for r in S2.results:
                    d = res_dict(r, S2.label)
                    d["bounded_fallback"] = n
                    fb_results.append(d)
            if ok and fb_results:
                fallback = {"reason": reason, "sizes": sizes_fb, "obligations": len(fb_results),
                            "discharged": sum(1 for d in fb_results if d["status"] == "proved")}
                results = fb_results
                S.error = None
    out = {"script": name, "props": desc["props"], "paths": S.paths, "path_ends": S.path_ends, "wall": S.wall,
           "error": S.error, "dropped": S.dropped, "vacuity": S.vacuity, "path_sat": getattr(S, "path_sat", {}), "executed": getattr(S, "executed", {}),
           "results": results, "counterexamples": [], "native_desc": getattr(S, "native_desc", None), "fallback": fallback}
    # clauses covered by a recorded known finding are decided by replaying the recorded witness, not by a new search
    failed = [r for r in out["results"] if r["status"] in ("failed", "unknown") and not r.get("known_id")]
    if failed and S.error is None:
        sizes = range(1, 5) if tier == "quick" else range(1, 7)
        if not getattr(S, "used_length", False):
            sizes = []          # concrete-structure script: nothing to concretise
        found = {}
        for n in sizes:
            try:
                S2 = run_script(desc, mode="refute", sizes=collections.defaultdict(lambda n=n: n), repo=repo)
            except Exception as e:  # noqa
                continue
            for r in S2.results:
                if r.status == "failed" and r.model is not None:
                    cl = clause_of(r.name, S2.label)
                    if cl in found:
                        continue
                    try:
                        inputs = S2.dump_inputs(r.model)
                    except Exception as e:
                        continue
                    rep = replay_inputs(desc, inputs, repo)
                    violated = [v for v in rep.get("verdicts", []) if v[1] == "violated"]
                    found[cl] = {"clause": cl, "size": n, "inputs": inputs, "replay": rep,
                                 "reproduced": bool(violated), "known_id": getattr(r, "known_id", None)}
            if any(f["reproduced"] for f in found.values()) and all(
                    (fr["clause"] in found) for fr in failed if fr["clause"] in found):
                if all(found.get(fr["clause"], {}).get("reproduced") for fr in failed if fr["clause"] in found):
                    break
        # concrete-structure scripts: the proof-mode counter-model already is a concrete input
        for r in S.results:
            if r.status == "failed" and r.model is not None:
                cl = clause_of(r.name, S.label)
                if cl in found:
                    continue
                try:
                    inputs = S.dump_inputs(r.model)
                except Exception:
                    continue
                if "<symbolic array>" in json.dumps(inputs, default=str):
                    continue
                found[cl] = {"clause": cl, "size": None, "inputs": inputs, "replay": {"status": "no-native-adapter"},
                             "reproduced": False, "known_id": getattr(r, "known_id", None)}
        out["counterexamples"] = list(found.values())
    out["total_wall"] = time.time() - t0
    return out


def run_jobs(args, nproc):
    """one fresh interpreter per proof script (exactly the conditions of a standalone run: solver behaviour depends on
    process state such as ast ids), at most nproc at a time"""
    import concurrent.futures as cf

    def one(a):
        p = subprocess.run([sys.executable, os.path.abspath(__file__), "--job", json.dumps(a)], capture_output=True, text=True,
                           env=dict(os.environ, VERIF_TIER=a[1], SHANGRLA_REPO=a[2]))
        try:
            return json.loads(p.stdout[p.stdout.index("@@JOB@@") + 7:])
        except Exception:
            return {"script": a[0], "props": [], "paths": 0, "path_ends": {}, "wall": 0, "error": ("crash", (p.stderr or p.stdout)[-1500:]),
                    "dropped": {}, "vacuity": [], "results": [], "counterexamples": [], "total_wall": 0}

    with cf.ThreadPoolExecutor(max_workers=nproc) as ex:
        return list(ex.map(one, args))


def run_bounded(case, tier, seed):
    try:
        p = subprocess.run([NATIVE_PY, os.path.join(ROOT, "bounded", "run.py"), case, tier, str(seed)], capture_output=True, text=True,
                           env=dict(os.environ, SHANGRLA_REPO=REPO), cwd="/", timeout=1800 if tier == "quick" else 14400)
    except subprocess.TimeoutExpired:
        return {"case": case, "error": "bounded case did not finish within its time budget", "evaluations": 0, "distinct_nontrivial": 0,
                "failures": [], "failures_more": 0, "samples": [], "bound": "", "exhaustive": False, "wall_s": 0}
    try:
        return json.loads(p.stdout[p.stdout.index("@@BOUNDED@@") + 11:])
    except Exception:
        return {"case": case, "error": (p.stderr or p.stdout)[-1500:], "evaluations": 0, "distinct_nontrivial": 0, "failures": [],
                "failures_more": 0, "samples": [], "bound": "", "exhaustive": False, "wall_s": 0}


def load_known():
    path = os.path.join(ROOT, "known_findings.txt")
    findings, fixed = [], []
    if os.path.exists(path):
        for line in open(path):
            line = line.strip()
            if line.startswith("finding:"):
                head, _, what = line[len("finding:"):].partition("::")
                f = {"what": what.strip()}
                # witness=<json> is last in head
                h, _, wj = head.partition(" witness=")
                f["witness"] = json.loads(wj) if wj.strip() else None
                for tok in h.split():
                    if "=" in tok:
                        k, v = tok.split("=", 1)
                        f[k] = v
                # script / clause may contain spaces: encoded with '~'
                for k in ("script", "clause"):
                    if k in f:
                        f[k] = f[k].replace("~", " ")
                findings.append(f)
            elif line.startswith("fixed:"):
                fixed.append(line)
    return findings, fixed


def write_replay(prop, payload):
    rdir = os.environ.get("PYVC_REPLAY_DIR", os.path.join(ROOT, "replays"))
    os.makedirs(rdir, exist_ok=True)
    h = hashlib.sha1(json.dumps(payload, sort_keys=True, default=str).encode()).hexdigest()[:12]
    path = os.path.join(rdir, f"{prop}-{h}.json")
    with open(path, "w") as f:
        json.dump(payload, f, indent=1, default=str)
    return path


def engine_selftest():
    """run on every check: (1) an obligation that must FAIL is refuted with a counter-model, (2) a script whose hypotheses are
    contradictory is flagged as vacuous instead of 'proved', (3) a true obligation is proved.  Any other outcome is an engine error."""
    from pyvc.driver import run_script
    from pyvc.core import ctx, icmp, iadd

    def bad(S, I, variant):
        x = S.integer("x", lo=0)
        S.holds("must fail: x >= 1 for every x >= 0", icmp(">=", x, 1))

    def vacuous(S, I, variant):
        x = S.integer("x", lo=0)
        ctx().assume(icmp("<", x, 0))
        S.holds("anything", icmp("==", x, 5))

    def good(S, I, variant):
        x = S.integer("x", lo=0)
        S.holds("x + 1 >= 1", icmp(">=", iadd(x, 1), 1))

    out = []
    S1 = run_script({"name": "selftest/false-obligation", "fn": bad, "variant": None, "props": []}, repo=REPO)
    out.append(S1.error is None and [r.status for r in S1.results] == ["failed"] and S1.results[0].model is not None)
    S2 = run_script({"name": "selftest/vacuous", "fn": vacuous, "variant": None, "props": []}, repo=REPO)
    out.append(S2.error is not None and "vacuous" in str(S2.error))
    S3 = run_script({"name": "selftest/true-obligation", "fn": good, "variant": None, "props": []}, repo=REPO)
    out.append(S3.error is None and [r.status for r in S3.results] == ["proved"])
    return out


def run_property(prop, tier):
    t0 = time.time()
    st = engine_selftest()
    if not all(st):
        print("ENGINE-ERROR selftest (false obligation refuted, vacuity flagged, true obligation proved) =", st)
        return 3
    seed = int(os.environ.get("VERIF_SEED", "0"))
    scripts = [d for d in load_scripts() if prop in d["props"] and (tier == "thorough" or not d.get("thorough_only"))]
    from contracts import meta as META
    bcases = META.BOUNDED_CASES.get(prop, [])
    if not scripts and not bcases:
        print(f"no proof scripts or bounded cases registered for {prop}")
        return 3
    import concurrent.futures as cf
    with cf.ThreadPoolExecutor(max_workers=4) as bex:
        bfut = [(case, flt, bex.submit(run_bounded, case, tier, seed)) for case, flt in bcases]
        nproc = min(14, max(1, len(scripts)), os.cpu_count() or 1)
        outs = run_jobs([(d["name"], tier, REPO) for d in scripts], nproc) if scripts else []
        bouts = [(case, flt, f.result()) for case, flt, f in bfut]
    findings, fixed = load_known()
    violations, known_lines, undecided, errors = [], [], [], []
    nobl = ndis = 0
    by_backend = collections.Counter()
    solver_time = 0.0
    samples = []
    dropped = collections.Counter()
    path_sat = collections.Counter()
    vac = 0
    skipped = []
    fallbacks = []
    for o in outs:
        if o["error"] and o["error"][0] == "not-applicable":
            # an unbounded proof script whose loop summaries do not fit the current code shape: skipped, never an alarm
            skipped.append(f"{o['script']}: {o['error'][1]}")
            print("SKIPPED", o["script"], "::", str(o["error"][1])[:200])
            continue
        if o["error"]:
            errors.append((o["script"], o["error"]))
        for k, v in (o["dropped"] or {}).items():
            dropped[k] += v
        vac += len(o["vacuity"])
        for k_, v_ in (o.get("path_sat") or {}).items():
            path_sat[k_] += v_
        cex = {c["clause"]: c for c in o["counterexamples"]}
        if o.get("fallback"):
            fallbacks.append(f"{o['script']}: unbounded proof unavailable for the current code shape ({o['fallback']['reason']}); BOUNDED fallback at "
                             f"lengths {o['fallback']['sizes']}: {o['fallback']['discharged']}/{o['fallback']['obligations']} obligations (not counted as proved)")
            print("BOUNDED-FALLBACK", fallbacks[-1][:260])
        for r in o["results"]:
            if r.get("props") and prop not in r["props"]:
                continue
            if r.get("bounded_fallback") is not None and r["status"] == "proved":
                continue            # bounded: never counted among the discharged obligations
            nobl += 1
            solver_time += r["secs"]
            if r["status"] == "proved":
                ndis += 1
                by_backend[r["backend"]] += 1
                if "smt" in r and len(samples) < 3:
                    samples.append({"obligation": r["name"], "verdict": "unsat (proved)", "smtlib": r["smt"][:1500]})
                continue
            if r["status"] == "unknown" and not r.get("known_id"):
                c_u = cex.get(r["clause"])
                if c_u is None or not c_u["reproduced"]:
                    undecided.append(r["name"] + " :: " + r.get("detail", ""))
                    continue
            if r["status"] not in ("failed", "unknown"):
                errors.append((o["script"], r["status"]))
                continue
            # failed obligation: known finding?
            kid = r.get("known_id")
            match = [f for f in findings if prop in f.get("property", "").split(",") and f.get("id") == kid and
                     o["script"] == f.get("script") and f.get("clause") == r["clause"]] if kid else []
            if match:
                f = match[0]
                desc = find_script(o["script"])
                rep = replay_inputs(desc, f["witness"], call=o.get("native_desc"))
                viol = [v for v in rep.get("verdicts", []) if v[0] == r["clause"] and v[1] == "violated"]
                if viol:
                    ndis += 1   # the clause is discharged outside the carve-out (separate obligation) and the recorded witness still fails
                    by_backend["known-finding(witness replayed)"] += 1
                    line = f"KNOWN-FINDING: property={prop} {f['id']} {o['script']} :: {f['what']}"
                    if line not in known_lines:
                        known_lines.append(line)
                    continue
            c = cex.get(r["clause"])
            if c is None:
                # any reproduced counterexample of this script stands for the failed obligation
                rep_c = [x for x in o["counterexamples"] if x["reproduced"]]
                c = rep_c[0] if rep_c else (o["counterexamples"][0] if o["counterexamples"] else None)
            violations.append({"property": prop, "script": o["script"], "obligation": r["name"], "clause": r["clause"],
                               "backend": r["backend"], "counterexample": c})
    # bounded stand-ins
    bsummary = []
    for case, flt, b in bouts:
        if b.get("error"):
            errors.append(("bounded:" + case, b["error"]))
        nfail = 0
        for f in b.get("failures", []):
            if flt is not None and not any(s in f["clause"] for s in flt):
                continue
            kid = f.get("known")
            match = [k for k in findings if prop in k.get("property", "").split(",") and k.get("id") == kid and k.get("kind") == "bounded"
                     and k.get("case") == case] if kid else []
            if match:
                line = f"KNOWN-FINDING: property={prop} {kid} bounded:{case} :: {match[0]['what']}"
                if line not in known_lines:
                    known_lines.append(line)
                continue
            nfail += 1
            violations.append({"property": prop, "script": "bounded:" + case, "obligation": "bounded:" + case + "/" + f["clause"],
                               "clause": f["clause"], "backend": "native run-time contract check (bounded)",
                               "counterexample": {"inputs": f["input"], "size": None, "reproduced": True,
                                                  "replay": {"native": {"got": f.get("got"), "expected": f.get("expected")},
                                                             "call": {"kind": "bounded", "case": case},
                                                             "verdicts": [[f["clause"], "violated"]]}}})
        bsummary.append({"function_or_case": case, "bound": b.get("bound"), "cases": b.get("evaluations"),
                         "distinct_nontrivial": b.get("distinct_nontrivial"), "exhaustive_within_bound": b.get("exhaustive"),
                         "failures": nfail, "wall_s": b.get("wall_s"), "samples": b.get("samples", [])[:2]})
    # report
    for line in known_lines:
        print(line)
    rc = 0
    seen = set()
    for v in violations:
        key = (v["script"], v["clause"])
        if key in seen:
            continue
        seen.add(key)
        c = v["counterexample"]
        payload = {"property": prop, "script": v["script"], "failed_obligation": v["obligation"], "clause": v["clause"],
                   "backend": v["backend"], "repo": REPO}
        if c:
            payload.update({"inputs": c["inputs"], "size": c["size"], "native": c["replay"].get("native"),
                            "call": c["replay"].get("call"), "verdicts": c["replay"].get("verdicts"),
                            "reproduced_on_real_code": c["reproduced"]})
        else:
            payload["solver_output"] = "obligation failed (sat) in proof mode; no concrete-length counter-model found"
        path = write_replay(prop, payload)
        tail = "" if (c and c["reproduced"]) else " no-failing-input-found"
        print(f"VIOLATION property={prop} replay={path}{tail}")
        rc = 1
    if rc == 0 and errors:
        for e in errors:
            print("ENGINE-ERROR", e[0], str(e[1])[:400])
        rc = 3
    if rc == 0 and undecided:
        for u in undecided:
            print("UNDECIDED", u[:300])
        rc = 2
    wall = time.time() - t0
    fexec = {}
    for o in outs:
        for k, v in (o.get("executed") or {}).items():
            if "<lambda>" in k and "Audit" not in k:
                continue
            e = fexec.setdefault(k, {"body": 0, "callee-contract": 0})
            e["body"] += v["body"]
            e["callee-contract"] += v["callee-contract"]
    fnames = sorted(f"{k}  (body executed symbolically x{v['body']}, used through its contract x{v['callee-contract']})" for k, v in fexec.items())
    if not samples and bsummary:
        samples = [s for b in bsummary for s in b["samples"]][:3]
    ev = {
        "property_id": prop, "tier": tier, "seed": seed,
        "level": META.LEVEL.get(prop, "proof"),
        "coverage": {
            "obligations": nobl, "discharged": ndis,
            "checker_cmd": f"python3-vt checks/check.py {prop} --tier {tier}",
            "trusted_base": META.trusted_base(prop),
            "by_backend": dict(by_backend), "solver_time_s": round(solver_time, 2),
            "functions_under_contract": fnames,
            "scripts": [{"script": o["script"], "paths": o["paths"], "obligations": len(o["results"]),
                         "wall_s": round(o["total_wall"], 2)} for o in outs],
            "extraction_dropped": dict(dropped), "vacuity_checks": vac + sum(path_sat.values()),
            "vacuity": {"paths_checked": sum(path_sat.values()), "hypotheses_satisfiable": path_sat.get("sat", 0),
                        "contradictory(unpruned infeasible path)": path_sat.get("unsat", 0), "undetermined": path_sat.get("unknown", 0),
                        "rule": "per path: 'False' must not follow from the hypotheses (nl-abstracted, rlimit); a script with no satisfiable path is an engine error"},
            "engine_selftest": "passed on this run: a false obligation was refuted with a counter-model, contradictory hypotheses were "
                               "flagged as vacuous, a true obligation was proved",
            "known_findings": known_lines, "undecided": undecided[:20], "scripts_not_applicable_to_code_shape": skipped, "bounded_fallbacks": fallbacks,
            "samples": samples or [{"obligation": outs[0]["results"][0]["name"] if outs and outs[0]["results"] else "none"}],
            "explanation": META.EXPLANATION.get(prop, ""),
            "bounded_standins": bsummary,
            "evaluations": sum(b["cases"] or 0 for b in bsummary),
            "distinct_nontrivial": sum(b["distinct_nontrivial"] or 0 for b in bsummary),
        },
        "assumptions": META.assumptions(prop),
        "wall_s": round(wall, 2),
        "violations": len(seen),
    }
    if not os.environ.get("PYVC_NO_EVIDENCE"):       # (scratch-copy campaigns must not overwrite the evidence of /repo)
        os.makedirs(os.path.join(ROOT, "evidence"), exist_ok=True)
        with open(os.path.join(ROOT, "evidence", f"{prop}.json"), "w") as f:
            json.dump(ev, f, indent=1)
    print(f"{prop}: {ndis}/{nobl} obligations discharged, {len(seen)} violation(s), {len(known_lines)} known finding(s), "
          f"{len(undecided)} undecided, {len(errors)} engine error(s); {wall:.1f}s")
    return rc


def do_replay(path):
    payload = json.load(open(path))
    if "inputs" not in payload:
        print("replay file carries no concrete input (no-failing-input-found):", payload.get("failed_obligation"))
        print(json.dumps(payload, indent=1)[:2000])
        return 1
    desc = find_script(payload["script"])
    rep = replay_inputs(desc, payload["inputs"])
    print(json.dumps(rep, indent=1, default=str)[:3000])
    viol = [v for v in rep.get("verdicts", []) if v[1] == "violated"]
    if viol:
        print(f"VIOLATION property={payload['property']} replay={path}")
        return 1
    print("not reproduced on this tree")
    return 0


def main():
    a = sys.argv[1:]
    if a and a[0] == "--job":
        out = job(tuple(json.loads(a[1])))
        sys.stdout.write("@@JOB@@" + json.dumps(out, default=str))
        return
    if a and a[0] == "--replay":
        sys.exit(do_replay(a[1]))
    prop = a[0]
    tier = os.environ.get("VERIF_TIER", "quick")
    if "--tier" in a:
        tier = a[a.index("--tier") + 1]
    os.environ["VERIF_TIER"] = tier
    sys.exit(run_property(prop, tier))


if __name__ == "__main__":
    main()
