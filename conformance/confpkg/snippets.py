"""Small programs over the numpy / Python fragment that the VC generator models.  Each is run natively (CPython + numpy) and
through pyvc's interpreter on the same concrete inputs by tools/conformance.py; the results must agree."""
import numpy as np
import math


def s_cumsum(x):
    return np.cumsum(x)


def s_cumprod(x):
    return np.cumprod(x)


def s_shifted_cumsum(x):
    return np.insert(np.cumsum(x), 0, 0)[0:-1]


def s_shifted_cumsum_kw(x):
    return np.insert(arr=np.cumsum(x), obj=0, values=0)[:-1]


def s_minimum_maximum(x, y):
    return np.minimum(x, y), np.maximum(x, y)


def s_clip_recip(x):
    with np.errstate(divide="ignore", invalid="ignore", over="ignore"):
        return np.minimum(1, 1 / x)


def s_divide(x, y):
    with np.errstate(divide="ignore", invalid="ignore", over="ignore"):
        return x / y


def s_arith(x, y):
    with np.errstate(divide="ignore", invalid="ignore", over="ignore"):
        return x + y, x - y, x * y, 2 * x - 1, (x - y) / (1 + y * y)


def s_mask_assign(x, a):
    y = np.array(x)
    y[y > a] = 0
    y[y < 0] = np.inf
    return y


def s_isclose(x, y):
    return np.isclose(x, y), np.isclose(x, y, rtol=0.1, atol=0.5)


def s_max_argmax(x):
    return np.max(x), np.argmax(x), np.min(x)


def s_sum_mean(x):
    return np.sum(x), np.mean(x)


def s_arange(n, k):
    return np.arange(0, n, step=k), np.arange(1, n + 1)


def s_tile_repeat(x, n):
    return np.tile(x, n)[0:n], np.repeat(x, 2)


def s_append(x, v):
    return np.append(x, v), np.append(x, [v, v])


def s_slices(x):
    return x[1:], x[:-1], x[-1], x[0:2], x[::1][0]


def s_compare_count(x, a):
    return x <= a, np.sum(x <= a), np.sum(x == a)


def s_searchsorted(x, v):
    cum = np.cumsum(np.abs(x))
    return np.searchsorted(cum, v, side="left"), np.searchsorted(cum, v, side="right")


def s_py_int_ops(a, b):
    out = [a + b, a - b, a * b, min(a, b), max(a, b), abs(a - b)]
    if b != 0:
        out += [a // b, a % b, int(a / b)]
    return out


def s_py_float_ops(p, q):
    out = [p + q, p * q, min(p, q), max(p, q), p <= q, p == q, 1 if p else 0]
    if q != 0:
        out.append(p / q)
    return out


def s_sqrt_abs(x):
    with np.errstate(invalid="ignore"):
        return np.sqrt(np.abs(x)), np.abs(x)


def s_isfinite(x):
    return np.isfinite(x), np.isnan(x), np.isinf(x)


def s_sorted(xs):
    return sorted(xs), [i for i, v in sorted(enumerate(xs), key=lambda t: t[1])], sorted(xs, reverse=True)


def s_dicts(a, b):
    d = {**a, **b}
    e = dict(a)
    e.update(b)
    return list(d.items()), list(e.keys()), d.get("zz", -1), "k1" in d, len(d), [k for k in d if d[k] > 0]


def s_any_all(xs):
    return any([v > 0 for v in xs]), all([v > 0 for v in xs]), any(v < 0 for v in xs), sum(1 for v in xs if v > 0)


def s_ones_scale(n, t):
    return t * np.ones(n), np.zeros(n) + t


def s_index_assign(n, k):
    x = np.ones(n)
    idx = np.arange(0, n, step=k, dtype=int)
    x[idx] = 5
    return x


def s_welford(x):
    m = [x[0]]
    v = [0]
    for i, xi in enumerate(x[1:]):
        m.append(m[-1] + (xi - m[-1]) / (i + 2))
        v.append(v[-1] + (xi - m[-2]) * (xi - m[-1]))
    v = v / np.arange(1, len(x) + 1)
    return np.array(m), v


def s_conditional_chain(a, b):
    r = a if a > b else (b if b > 0 else 0)
    s = (a <= b) or (b < 0)
    t = (a > 0) and (b > 0)
    return r, s, t, not s


def s_strings(i, j):
    return "p-" + str(i + 1), f"{i}-{j}", ("a" + str(i)) == ("a" + str(j)), str(i) + "_" + str(j)


def s_list_ops(xs, v):
    ys = list(xs)
    ys.append(v)
    zs = ys + [v]
    return ys, zs[1:], len(zs), zs[-1], [y for y in ys if y != v], ys.index(v) if v in ys else -1


def s_divide_where(x, y):
    return np.divide(x, y, out=np.zeros_like(x), where=y > 0), np.divide(1, y, out=np.zeros_like(y), where=y != 0), np.multiply(x, y), np.add(x, 1)
