"""Contracts and proof scripts for shangrla/core/Audit.py: assorters, overstatement, data for tests, p-value bookkeeping.

Cards are fully symbolic records (pyvc.heap.sym_cvr): every contest and every candidate entry is present under its own
symbolic condition, marks are opaque values of which only truthiness is observable (plurality / super-majority) or
non-negative integer ranks (IRV).  Per-card clauses are loop-free => complete for all cards; list-level clauses are lemmas
over ghost sums (unbounded) plus the list code checked at bounded length where stated.
"""
import z3
from fractions import Fraction
from pyvc.core import *
from pyvc.values import *
from pyvc.interp import Obj, Builtin, BoundMethod, Closure
from pyvc.heap import *
from .common import make_script_registry, guard, npx, run_loop_body

MOD = "shangrla.core.Audit"
SCRIPTS, script = make_script_registry(__name__)
HALF = XR.const(Fraction(1, 2))
ONE = XR.const(1)
ZERO = XR.const(0)


# ------------------------------------------------------------------ builders

def mk_contest(I, **kw):
    cls = I.get(MOD, "Contest")
    return I.call(cls, [], kw)


def card_vote(cvr, cid, cand):
    """spec-side reading of a card: truthiness of the mark for `cand` in contest `cid` (absent => no vote)"""
    votes = cvr.attrs["votes"]
    inner = votes.vals.get(cid)
    if isinstance(inner, dict):
        if cand not in inner:
            return False
        v = inner[cand]
        t = v.truth_term() if isinstance(v, Mark) else icmp("!=", v, 0)
        return band(bterm(votes.has(cid)), t)
    if inner is None or cand not in inner.pres:
        return False
    v = inner.vals[cand]
    t = v.truth_term() if isinstance(v, Mark) else icmp("!=", v, 0)
    return band(bterm(votes.has(cid)), bterm(inner.has(cand)), t)


def card_rank(cvr, cid, cand):
    """(listed, rank) for ranked ballots"""
    votes = cvr.attrs["votes"]
    inner = votes.vals.get(cid)
    if inner is None or cand not in inner.pres:
        return False, 0
    return band(bterm(votes.has(cid)), bterm(inner.has(cand))), inner.vals[cand]


def has_contest(cvr, cid):
    return bterm(cvr.attrs["votes"].has(cid))


def b2x(b):
    return x_from_bool(mkbool(b))


def rec_card(S, name, cvr):
    S._rec(name, cvr)
    return cvr


def test_config(S, I, asn, con, tag):
    """the assertion's test is the one the null hypothesis 'assorter mean <= 1/2 over the contest's cards' needs"""
    t = asn.attrs["test"]
    S.holds(f"{tag} the test's null mean is 1/2", bterm(I.equal(t.attrs["t"], HALF)))
    S.holds(f"{tag} the test's population size is the contest's card bound", bterm(I.equal(t.attrs["N"], con.attrs["cards"])))
    S.holds(f"{tag} the test assumes the sample is in random order", I.truth_term(t.attrs["random_order"]))


# ------------------------------------------------------------------ C02: plurality assorter

@script(["C02", "C06"], "Assertion.make_plurality_assertions/assorters")
def plurality_assorters(S, I, variant):
    """two winners x two losers: keys, captured pair per assertion, value (w-l+1)/2, bounds"""
    cands = ["A", "B", "C", "D", "E"]
    con = mk_contest(I, id="con", name="con", cards=S.integer("cards", lo=1), candidates=cands, winner=["A", "B"], g=XR.const(Fraction(1, 10)))
    fn = I.get(MOD, "Assertion.make_plurality_assertions")
    r, exc = guard(S, I, lambda: I.call(fn, [], {"contest": con, "winner": ["A", "B"], "loser": ["C", "D"]}))
    if exc:
        return
    S.holds("keys = winners x losers", set(r.keys()) == {"A v C", "A v D", "B v C", "B v D"})
    tests_ = [a_.attrs.get("test") for a_ in r.values()]
    S.holds("every assertion has a test object of its own (the bound u is installed per assertion, each with its own margin)",
            all(t_ is not None for t_ in tests_) and len({id(t_) for t_ in tests_}) == len(tests_))
    card = rec_card(S, "card", sym_cvr(I, "card", {"con": cands, "other": ["A", "C"]}))
    for w in ("A", "B"):
        for l in ("C", "D"):
            asn = r.get(f"{w} v {l}")
            if asn is None:
                continue
            S.holds(f"[{w} v {l}] winner/loser recorded", band(asn.attrs["winner"] == w, asn.attrs["loser"] == l))
            a = asn.attrs["assorter"]
            v, exc = guard(S, I, lambda: I.call(a.attrs["assort"], [card], {}))
            if exc:
                continue
            spec = xdiv_np(xadd(xsub(b2x(card_vote(card, "con", w)), b2x(card_vote(card, "con", l))), ONE), XR.const(2))
            S.eq(f"[{w} v {l}] assort(card) = (w - l + 1)/2 with this pair's marks", v, spec)
            S.holds(f"[{w} v {l}] 0 <= assort <= upper_bound = 1", band(xcmp(">=", v, ZERO), xcmp("<=", v, a.attrs["upper_bound"]),
                                                                       bterm(I.equal(a.attrs["upper_bound"], 1))))
            S.holds(f"[{w} v {l}] test.u = assorter bound", bterm(I.equal(asn.attrs["test"].attrs["u"], a.attrs["upper_bound"])))
            test_config(S, I, asn, con, f"[{w} v {l}]")
            S.holds(f"[{w} v {l}] card lacking the contest scores 1/2", bimp(bnot(has_contest(card, "con")), xsame(v, HALF)))


@script(["C02"], "plurality/mean>1/2 iff winner has more votes (lemma)")
def plurality_iff_lemma(S, I, variant):
    """lemma over the per-card post: for n >= 1 cards with w_i, l_i in {0,1}:
    mean((w_i - l_i + 1)/2) > 1/2  <=>  sum w_i > sum l_i   (linearity of sums by induction)"""
    n = S.length("n", lo=1)
    w = S.array("w", n, 0, 1)
    l = S.array("l", n, 0, 1)
    a = SymArr(n, lambda i: xdiv_np(xadd(xsub(w.at(i), l.at(i)), ONE), XR.const(2)), "xr") if not isinstance(n, int) else \
        SymArr(0, kind="xr", items=[xdiv_np(xadd(xsub(w.at(i), l.at(i)), ONE), XR.const(2)) for i in range(n)])
    A, W, L = a.fold("+"), w.fold("+"), l.fold("+")
    S.native_desc = None
    lin = lambda k: xsame(xmul(XR.const(2), A.at(k)), xadd(xsub(W.at(k), L.at(k)), XR.const(k)))
    if isinstance(n, int):
        S.holds("2 sum(a) = sum(w) - sum(l) + n", lin(n))
    else:
        inst = S.induction("2 sum(a) = sum(w) - sum(l) + k", lin, lo=0, hi=n)
        inst(n)
    nn_ = XR.const(n)
    mean = xdiv_np(A.at(n), nn_)
    S.holds("mean > 1/2 <=> sum(w) > sum(l)", biff(xcmp(">", mean, HALF), xcmp(">", W.at(n), L.at(n))))
    S.holds("margin from tally = 2 mean - 1", xsame(xdiv_np(xsub(W.at(n), L.at(n)), nn_), xsub(xmul(XR.const(2), mean), ONE)))


# ------------------------------------------------------------------ C02: super-majority assorter

def supermajority_setup(S, I, pass_share=True):
    f = S.real("share_to_win", lo_strict=0, hi_strict=1)
    cands = ["W", "L1", "L2"]
    con = mk_contest(I, id="con", name="con", cards=S.integer("cards", lo=1), candidates=cands, winner=["W"], share_to_win=f)
    fn = I.get(MOD, "Assertion.make_supermajority_assertion")
    kw = {"contest": con, "winner": "W", "loser": ["L1", "L2"]}
    if pass_share:
        kw["share_to_win"] = f
    r, exc = guard(S, I, lambda: I.call(fn, [], kw))
    return f, cands, con, r, exc


@script(["C02", "C06"], "Assertion.make_supermajority_assertion/assorter", variants=(("share passed",), ("share taken from the contest",)))
def supermajority_assorter(S, I, variant):
    f, cands, con, r, exc = supermajority_setup(S, I, pass_share=(variant[0] == "share passed"))
    if exc:
        return
    S.holds("key", set(r.keys()) == {"W v ALL_OTHERS"})
    asn = r["W v ALL_OTHERS"]
    a = asn.attrs["assorter"]
    card = rec_card(S, "card", sym_cvr(I, "card", {"con": cands + ["X"], "other": ["W"]}))
    v, exc = guard(S, I, lambda: I.call(a.attrs["assort"], [card], {}))
    if exc:
        return
    marks = [card_vote(card, "con", c) for c in cands]
    nmarks = 0
    for m in marks:
        nmarks = mkint(iadd(nmarks, iite(m, 1, 0)))
    valid = band(has_contest(card, "con"), icmp("==", nmarks, 1))
    ub = xdiv_np(ONE, xmul(XR.const(2), f))
    spec = xite(valid, xdiv_np(b2x(card_vote(card, "con", "W")), xmul(XR.const(2), f)), HALF)
    S.eq("assort(card) = w/(2f) if exactly one mark among the candidates else 1/2", v, spec)
    S.eq("upper_bound = 1/(2f)", a.attrs["upper_bound"], ub)
    S.eq("test.u = 1/(2f)", asn.attrs["test"].attrs["u"], ub)
    test_config(S, I, asn, con, "[supermajority]")
    S.holds("0 <= assort <= upper_bound", band(xcmp(">=", v, ZERO), xcmp("<=", v, ub)))
    S.holds("1/2 <= upper_bound", xcmp("<=", HALF, ub))
    S.holds("card lacking the contest scores 1/2", bimp(bnot(has_contest(card, "con")), xsame(v, HALF)))


@script(["C02"], "Assertion.make_supermajority_assertion/loser list not aliased")
def supermajority_no_alias(S, I, variant):
    """the caller's loser list must not be modified (a second call with the same list must build the same assorter)"""
    f = S.real("share_to_win", lo_strict=0, hi_strict=1)
    cands = ["W", "L1", "L2"]
    con = mk_contest(I, id="con", name="con", cards=S.integer("cards", lo=1), candidates=cands, winner=["W"], share_to_win=f)
    fn = I.get(MOD, "Assertion.make_supermajority_assertion")
    losers = ["L1", "L2"]
    r, exc = guard(S, I, lambda: (I.call(fn, [], {"contest": con, "share_to_win": f, "winner": "W", "loser": losers}),
                                  I.call(fn, [], {"contest": con, "share_to_win": f, "winner": "W", "loser": losers}))[1])
    if exc:
        return
    S.holds("caller's loser list unchanged", losers == ["L1", "L2"])
    a = r["W v ALL_OTHERS"].attrs["assorter"]
    card = rec_card(S, "card", sym_cvr(I, "card", {"con": cands}))
    v, exc = guard(S, I, lambda: I.call(a.attrs["assort"], [card], {}))
    if exc:
        return
    marks = [card_vote(card, "con", c) for c in cands]
    nmarks = 0
    for m in marks:
        nmarks = mkint(iadd(nmarks, iite(m, 1, 0)))
    valid = band(has_contest(card, "con"), icmp("==", nmarks, 1))
    S.eq("second assorter built from the same list is the same function", v,
         xite(valid, xdiv_np(b2x(card_vote(card, "con", "W")), xmul(XR.const(2), f)), HALF))


@script(["C02"], "supermajority/mean>1/2 iff winner share > f of valid votes (lemma)")
def supermajority_iff_lemma(S, I, variant):
    """n cards, v_i in {0,1} valid, w_i <= v_i winner's valid votes, a_i = w_i/(2f) if v_i else 1/2:
    mean(a) > 1/2 <=> sum w > f sum v;  margin from tally q(p/f - 1) = 2 mean - 1"""
    n = S.length("n", lo=1)
    f = S.real("f", lo_strict=0, hi_strict=1)
    v = S.array("v", n, 0, 1)
    w = S.array("w", n, 0, 1)
    S.native_desc = None
    mk = (lambda g: SymArr(n, g, "xr")) if not isinstance(n, int) else (lambda g: SymArr(0, kind="xr", items=[g(i) for i in range(n)]))
    # w_i v_i is the winner's vote on a valid card; invalid cards score 1/2
    a = mk(lambda i: xadd(xdiv_np(xmul(w.at(i), v.at(i)), xmul(XR.const(2), f)), xmul(HALF, xsub(ONE, v.at(i)))))
    wv = mk(lambda i: xmul(w.at(i), v.at(i)))
    A, V, WV = a.fold("+"), v.fold("+"), wv.fold("+")
    lin = lambda k: xsame(xmul(xmul(XR.const(2), f), A.at(k)), xadd(WV.at(k), xmul(f, xsub(XR.const(k), V.at(k)))))
    if isinstance(n, int):
        S.holds("2f sum(a) = sum(w v) + f (n - sum v)", lin(n))
    else:
        inst = S.induction("2f sum(a) = sum(w v) + f (k - sum v)", lin, lo=0, hi=n)
        inst(n)
    nn_ = XR.const(n)
    mean = xdiv_np(A.at(n), nn_)
    c = ctx()
    hy = [xsame(xmul(xmul(XR.const(2), f), A.at(n)), xadd(WV.at(n), xmul(f, xsub(nn_, V.at(n))))), xcmp(">", f, ZERO),
          xcmp("<", f, ONE), icmp(">=", n, 1)]
    S.prove_using("mean > 1/2 <=> sum(w v) > f sum(v)", biff(xcmp(">", mean, HALF), xcmp(">", WV.at(n), xmul(f, V.at(n)))),
                  hy, opaque=[A.at(n), WV.at(n), V.at(n)])
    q = xdiv_np(V.at(n), nn_)
    p = xdiv_np(WV.at(n), nn_)
    S.prove_using("margin from tally q(p/f - 1)... = 2 mean - 1 where p, q are shares of the cards",
                  xsame(xsub(xdiv_np(p, f), q), xsub(xmul(XR.const(2), mean), ONE)), hy, opaque=[A.at(n), WV.at(n), V.at(n)])


@script(["C02"], "Assertion.find_margin_from_tally/post", variants=(("plurality",), ("supermajority",)))
def find_margin_from_tally(S, I, variant):
    plur = variant[0] == "plurality"
    cards = S.integer("cards", lo=1)
    tw = S.integer("tally_w", lo=0, hi=cards)
    tl = S.integer("tally_l", lo=0, hi=cards)
    Con = I.get(MOD, "Contest")
    if plur:
        con = mk_contest(I, id="con", cards=cards, candidates=["W", "L"], winner=["W"], tally={"W": tw, "L": tl})
        fn = I.get(MOD, "Assertion.make_plurality_assertions")
        r, exc = guard(S, I, lambda: I.call(fn, [], {"contest": con, "winner": ["W"], "loser": ["L"]}))
        if exc:
            return
        asn = r["W v L"]
    else:
        f = S.real("share_to_win", lo_strict=0, hi_strict=1)
        # the tally may hold names that are not candidates of the contest (write-ins): ballots for them are not valid votes
        con = mk_contest(I, id="con", cards=cards, candidates=["W", "L"], winner=["W"], share_to_win=f,
                         tally={"W": tw, "L": tl, "write-in": S.integer("tally_write_in", lo=0, hi=cards)}, choice_function="SUPERMAJORITY")
        fn = I.get(MOD, "Assertion.make_supermajority_assertion")
        r, exc = guard(S, I, lambda: I.call(fn, [], {"contest": con, "share_to_win": f, "winner": "W", "loser": ["L"]}))
        if exc:
            return
        asn = r["W v ALL_OTHERS"]
    if not plur:
        ctx().assume(icmp(">=", iadd(tw, tl), 1))          # some valid vote (p is a share of the valid votes)
        ctx().assume(icmp("<=", iadd(tw, tl), cards))
    _, exc = guard(S, I, lambda: I.call(I.getattr(asn, "find_margin_from_tally"), [], {}))
    if exc:
        return
    m = asn.attrs["margin"]
    cN = XR.const(cards)
    if plur:
        S.eq("margin = (tally_w - tally_l)/cards", m, xdiv_np(XR.const(mkint(isub(tw, tl))), cN))
    else:
        # the property: margin from the tally = 2 * (assorter mean over the same cards) - 1.  With W winner votes and V valid votes
        # among `cards` cards the mean is (W/(2f) + (cards - V)/2)/cards (lemma `supermajority_iff_lemma`), so the margin is
        # W/(f cards) - V/cards  =  q (p/f - 1)  with q = V/cards the share of cards with a valid vote and p = W/V the winner's
        # share OF THE VALID VOTES
        V = XR.const(mkint(iadd(tw, tl)))
        S.eq("margin = 2 mean - 1 = W/(f cards) - V/cards  (q (p/f - 1), q = share of cards with a valid vote, p = winner's share of the valid votes)",
             m, xsub(xdiv_np(XR.const(tw), xmul(f, cN)), xdiv_np(V, cN)))


# ------------------------------------------------------------------ C03 / C06 / C08: overstatement, overstatement assorter

def abstract_assorter(S, I, con, u_a, values, tally_pool_means=None):
    """Assorter object whose `assort` is abstracted by its interface contract: a value in [0, upper_bound] per card
    (the cards and their values are given)"""
    cls = I.get(MOD, "Assorter")
    ids = {id(c): v for c, v in values}

    def assort(I_, a, k):
        c = a[0] if a else next(iter(k.values()))
        if id(c) not in ids:
            raise Unsupported("assort on an unknown card")
        return ids[id(c)]

    return Obj(cls, {"contest": con, "assort": Builtin("abstract_assort", assort), "upper_bound": u_a,
                     "tally_pool_means": tally_pool_means, "winner": None, "loser": None})


def overst_setup(S, I, pooled_means=True):
    u_a = S.real("u_a", lo=Fraction(1, 2))
    con = mk_contest(I, id="con", cards=S.integer("cards", lo=1), candidates=["A", "B"], winner=["A"])
    mvr = rec_card(S, "mvr", sym_cvr(I, "mvr", {"con": ["A", "B"]}))
    cvr = rec_card(S, "cvr", sym_cvr(I, "cvr", {"con": ["A", "B"]}))
    a_m = S.real("assort_mvr", lo=0, hi=u_a)
    a_c = S.real("assort_cvr", lo=0, hi=u_a)
    means = SymMap("pool_mean", lo=0, hi=u_a) if pooled_means else None
    assorter = abstract_assorter(S, I, con, u_a, [(mvr, a_m), (cvr, a_c)], tally_pool_means=means)
    return u_a, con, mvr, cvr, a_m, a_c, means, assorter


def overst_spec(I, mvr, cvr, a_m, a_c, means, use_style):
    """c~ - a~ per the property text"""
    at = xite(bor(bterm(mvr.attrs["phantom"]), band(use_style, bnot(has_contest(mvr, "con")))), ZERO, a_m)
    if means is not None:
        pm = means.py_getitem(I, cvr.attrs["tally_pool"])
        ct = xite(bterm(cvr.attrs["pool"]), pm, xite(bterm(cvr.attrs["phantom"]), HALF, a_c))
    else:
        ct = xite(bterm(cvr.attrs["phantom"]), HALF, a_c)
    return xsub(ct, at), at, ct


@script(["C03", "C08", "C06"], "Assorter.overstatement/post", variants=(("style", "means"), ("nostyle", "means"), ("style", "nomeans"), ("nostyle", "nomeans")))
def overstatement_post(S, I, variant):
    use_style = variant[0] == "style"
    u_a, con, mvr, cvr, a_m, a_c, means, assorter = overst_setup(S, I, variant[1] == "means")
    fn = I.getattr(assorter, "overstatement")
    r, exc = guard(S, I, lambda: I.call(fn, [mvr, cvr], {"use_style": use_style}), allowed=("ValueError",))
    if exc:
        S.holds("ValueError only when style is used and the CVR lacks the contest", band(use_style, bnot(has_contest(cvr, "con"))))
        return
    S.holds("no error => not (use_style and CVR lacks contest)", bnot(band(use_style, bnot(has_contest(cvr, "con")))))
    spec, at, ct = overst_spec(I, mvr, cvr, a_m, a_c, means, use_style)
    S.eq("overstatement = c~ - a~ (phantom MVR -> 0; missing contest under style -> 0; pooled CVR -> pool mean; phantom CVR -> 1/2)", r, spec)
    S.holds("a~, c~ in [0, u_a]", band(xcmp(">=", at, ZERO), xcmp("<=", at, u_a), xcmp(">=", ct, ZERO), xcmp("<=", ct, u_a)))


@script(["C03", "C06", "C08"], "Assertion.overstatement_assorter/post+range", variants=(("style",), ("nostyle",)))
def overstatement_assorter_post(S, I, variant):
    use_style = variant[0] == "style"
    u_a, con, mvr, cvr, a_m, a_c, means, assorter = overst_setup(S, I, True)
    v = S.real("margin", lo_strict=-1)
    ctx().assume(xcmp("<=", v, xsub(xmul(XR.const(2), u_a), ONE)))       # margin = 2 mean - 1 with mean <= u_a
    Asn = I.get(MOD, "Assertion")
    asn = Obj(Asn, {"contest": con, "assorter": assorter, "margin": v})
    fn = I.getattr(asn, "overstatement_assorter")
    r, exc = guard(S, I, lambda: I.call(fn, [mvr, cvr], {"use_style": use_style}), allowed=("ValueError",))
    if exc:
        S.holds("ValueError only when style is used and the CVR lacks the contest", band(use_style, bnot(has_contest(cvr, "con"))))
        return
    spec, at, ct = overst_spec(I, mvr, cvr, a_m, a_c, means, use_style)
    den = xsub(XR.const(2), xdiv_np(v, u_a))
    S.eq("B = (1 - (c~ - a~)/u)/(2 - v/u)", r, xdiv_np(xsub(ONE, xdiv_np(spec, u_a)), den))
    ub = xdiv_np(XR.const(2), den)
    S.holds("0 <= B <= 2/(2 - v/u)", band(xr(r).fin(), xcmp(">=", r, ZERO), xcmp("<=", r, ub)))
    # C08 scoring: the same pair with the manual record unfindable
    ph = Obj(mvr.cls, dict(mvr.attrs))
    ph.attrs["phantom"] = True
    assorter.attrs["assort"] = abstract_assorter(S, I, con, u_a, [(mvr, a_m), (cvr, a_c), (ph, a_m)], means).attrs["assort"]
    r2, exc = guard(S, I, lambda: I.call(fn, [ph, cvr], {"use_style": use_style}))
    if exc:
        return
    S.holds("replacing the manual record by a phantom never increases B", xcmp("<=", r2, r))
    S.holds("un-pooled phantom CVR is scored 1/2", bimp(band(bterm(cvr.attrs["phantom"]), bnot(bterm(cvr.attrs["pool"]))), xsame(ct, HALF)))


@script(["C03"], "overstatement/population identity (lemma)")
def population_identity_lemma(S, I, variant):
    """lemma over the per-card posts: if sum_i c~_i = sum_i assort(cvr_i) = n (v+1)/2 (pool sums cancel; phantom CVRs
    contribute 1/2 like their assorter value), then  mean(B) - 1/2 = (2 mean(a~) - 1) / (2 (2u - v))"""
    n = S.length("n", lo=1)
    u = S.real("u", lo=Fraction(1, 2))
    v = S.real("v", lo_strict=-1)
    ctx().assume(xcmp("<=", v, xsub(xmul(XR.const(2), u), ONE)))
    at = S.array("a_tilde", n, 0, u)
    ct = S.array("c_tilde", n, 0, u)
    S.native_desc = None
    den = xsub(XR.const(2), xdiv_np(v, u))
    mk = (lambda g: SymArr(n, g, "xr")) if not isinstance(n, int) else (lambda g: SymArr(0, kind="xr", items=[g(i) for i in range(n)]))
    B = mk(lambda i: xdiv_np(xsub(ONE, xdiv_np(xsub(ct.at(i), at.at(i)), u)), den))
    SB, SA, SC = B.fold("+"), at.fold("+"), ct.fold("+")
    lin = lambda k: xsame(xmul(xmul(den, u), SB.at(k)), xadd(xsub(xmul(u, XR.const(k)), SC.at(k)), SA.at(k)))
    if isinstance(n, int):
        S.holds("den u sum(B) = u n - sum(c~) + sum(a~)", lin(n))
    else:
        inst = S.induction("den u sum(B) = u k - sum(c~) + sum(a~)", lin, lo=0, hi=n)
        inst(n)
    nn_ = XR.const(n)
    hy = [xsame(xmul(xmul(den, u), SB.at(n)), xadd(xsub(xmul(u, nn_), SC.at(n)), SA.at(n))),
          xsame(SC.at(n), xmul(nn_, xdiv_np(xadd(v, ONE), XR.const(2)))),     # margin computed from the same CVRs
          xcmp(">=", u, HALF), xcmp(">", v, XR.const(-1)), xcmp("<=", v, xsub(xmul(XR.const(2), u), ONE)), icmp(">=", n, 1)]
    meanB = xdiv_np(SB.at(n), nn_)
    meanA = xdiv_np(SA.at(n), nn_)
    S.prove_using("mean(B) - 1/2 = (2 mean(a~) - 1)/(2 (2u - v))",
                  xsame(xsub(meanB, HALF), xdiv_np(xsub(xmul(XR.const(2), meanA), ONE), xmul(XR.const(2), xsub(xmul(XR.const(2), u), v)))),
                  hy, opaque=[SB.at(n), SA.at(n), SC.at(n)])


# ------------------------------------------------------------------ C06 / C07: mvrs_to_data (bounded list length, symbolic cards)

NCARDS = (("n0",), ("n1",), ("n2",), ("n3",))


def sample_setup(S, I, n, audit_type, use_style):
    u_a = S.real("u_a", lo=Fraction(1, 2))
    thr = S.real("sample_threshold")
    con = mk_contest(I, id="con", cards=S.integer("cards", lo=1), candidates=["A", "B"], winner=["A"],
                     audit_type=audit_type, use_style=use_style, sample_threshold=thr)
    mvrs = [rec_card(S, f"mvr{i}", sym_cvr(I, f"mvr{i}", {"con": ["A", "B"]})) for i in range(n)]
    cvrs = [rec_card(S, f"cvr{i}", sym_cvr(I, f"cvr{i}", {"con": ["A", "B"]})) for i in range(n)]
    vals = []
    for i in range(n):
        vals.append((mvrs[i], S.real(f"assort_mvr{i}", lo=0, hi=u_a)))
        vals.append((cvrs[i], S.real(f"assort_cvr{i}", lo=0, hi=u_a)))
    means = SymMap("pool_mean", lo=0, hi=u_a)
    assorter = abstract_assorter(S, I, con, u_a, vals, tally_pool_means=means)
    v = S.real("margin", lo_strict=0)
    ctx().assume(xcmp("<=", v, xsub(xmul(XR.const(2), u_a), ONE)))
    asn = Obj(I.get(MOD, "Assertion"), {"contest": con, "assorter": assorter, "margin": v, "winner": "A", "loser": "B"})
    return u_a, thr, con, mvrs, cvrs, dict((id(c), x) for c, x in vals), means, assorter, v, asn


@script(["C06", "C07"], "Assertion.mvrs_to_data/comparison (bounded: n cards)", variants=tuple((n[0], s, a) for n in NCARDS for s in ("style", "nostyle") for a in ("all", "thr", "default")))
def mvrs_to_data_comparison(S, I, variant):
    n = int(variant[0][1:])
    use_style = variant[1] == "style"
    use_all = variant[2] == "all"          # "default": the argument is omitted, as set_p_values does; the threshold filter applies
    u_a, thr, con, mvrs, cvrs, vals, means, assorter, v, asn = sample_setup(S, I, n, "CARD_COMPARISON", use_style)
    fn = I.getattr(asn, "mvrs_to_data")
    r, exc = guard(S, I, lambda: I.call(fn, [mvrs, cvrs], {} if variant[2] == "default" else {"use_all": use_all}), allowed=("ValueError",))
    c = ctx()
    if exc:
        S.holds("no exception expected: every contributing CVR lists the contest", False)
        return
    d, u = r
    den = xsub(XR.const(2), xdiv_np(v, u_a))
    S.eq("u = 2/(2 - v/u_assorter)", u, xdiv_np(XR.const(2), den))
    # the property's wording of who contributes
    exp = []
    for i in range(n):
        contributes = True if not use_style else band(has_contest(cvrs[i], "con"),
                                                      True if use_all else xcmp("<=", cvrs[i].attrs["sample_num"], thr))
        if c.decide(contributes):
            spec, at, ct = overst_spec(I, mvrs[i], cvrs[i], vals[id(mvrs[i])], vals[id(cvrs[i])], means, use_style)
            exp.append(xdiv_np(xsub(ONE, xdiv_np(spec, u_a)), den))
    from pyvc.npmodel import to_arr
    darr = to_arr(I, d)
    S.holds("exactly the contributing cards, in order", darr.length == len(exp))
    if darr.length == len(exp):
        for k in range(len(exp)):
            S.eq(f"d[{k}] = B(mvr, cvr) of the k-th contributing card", darr.at(k), exp[k])
            S.holds(f"0 <= d[{k}] <= u", band(xcmp(">=", darr.at(k), ZERO), xcmp("<=", darr.at(k), u)))


@script(["C06"], "Assertion.mvrs_to_data/polling (bounded: n cards)", variants=NCARDS)
def mvrs_to_data_polling(S, I, variant):
    n = int(variant[0][1:])
    u_a, thr, con, mvrs, cvrs, vals, means, assorter, v, asn = sample_setup(S, I, n, "POLLING", True)
    fn = I.getattr(asn, "mvrs_to_data")
    r, exc = guard(S, I, lambda: I.call(fn, [mvrs, None], {}))
    if exc:
        return
    d, u = r
    S.eq("u = assorter bound", u, u_a)
    from pyvc.npmodel import to_arr
    darr = to_arr(I, d)
    S.holds("one value per manual record", darr.length == n)
    if darr.length == n:
        for k in range(n):
            S.eq(f"d[{k}] = assort(mvr_k)", darr.at(k), vals[id(mvrs[k])])
            S.holds(f"0 <= d[{k}] <= u", band(xcmp(">=", darr.at(k), ZERO), xcmp("<=", darr.at(k), u)))


# ------------------------------------------------------------------ C09 (+C06c): set_p_values, summarize_status, reset_p_values

def p_setup(S, I, shape=((2,), (1,))):
    """contests with the given numbers of assertions; each assertion has an abstract test (records u and data at call time)
    and an abstract mvrs_to_data"""
    contests = {}
    log = []
    Asn = I.get(MOD, "Assertion")
    Con = I.get(MOD, "Contest")
    NM = I.get("shangrla.core.NonnegMean", "NonnegMean")
    for ci, (na,) in enumerate(shape):
        cid = f"c{ci}"
        rl = S.real(f"risk_limit_{cid}", lo_strict=0, hi=Fraction(1, 2))
        con = mk_contest(I, id=cid, risk_limit=rl, cards=10, candidates=["A", "B"], winner=["A"])
        asns = {}
        for ai in range(na):
            aid = f"{cid}.a{ai}"
            data = S.array(f"data_{aid}", 2, 0, None)
            ud = S.real(f"u_{aid}", lo_strict=0)
            pv = XR.var(f"p_{aid}", npk=True)
            S._rec(f"p_{aid}", pv)
            hist = S.array(f"hist_{aid}", 2, general=True)
            testobj = Obj(NM, {"u": S.real(f"stale_u_{aid}", lo_strict=0)})

            def test(I_, a, k, aid=aid, testobj=testobj, pv=pv, hist=hist):
                log.append((aid, a[0] if a else k.get("x"), testobj.attrs["u"]))
                return (pv, hist)

            testobj.attrs["test"] = Builtin("abstract_test", test)
            asn = Obj(Asn, {"contest": con, "test": testobj, "p_value": XR.var(f"old_p_{aid}", npk=True), "p_history": [],
                            "proved": S.boolean(f"old_proved_{aid}"), "winner": "A", "loser": "B", "margin": XR.const(Fraction(1, 10))})
            asn.spec = {"data": data, "u": ud, "p": pv, "hist": hist, "old_proved": asn.attrs["proved"], "aid": aid}

            def m2d(I_, a, k, asn=asn):
                return (asn.spec["data"], asn.spec["u"])

            asn.attrs["mvrs_to_data"] = Builtin("abstract_mvrs_to_data", m2d)
            asns[f"a{ai}"] = asn
        con.attrs["assertions"] = asns
        contests[cid] = con
    return contests, log


P_SHAPES = (("1x1",), ("1x2",), ("2x(2,1)",), ("2x(1,2)",), ("3x(1,1,2)",))
_SHAPE = {"1x1": ((1,),), "1x2": ((2,),), "2x(2,1)": ((2,), (1,)), "2x(1,2)": ((1,), (2,)), "3x(1,1,2)": ((1,), (1,), (2,))}


def xmax_nan(vals):
    """np.max over a list: NaN if any NaN else the maximum"""
    acc = xr(vals[0])
    for v in vals[1:]:
        acc = xmaximum(acc, xr(v))
    return acc


@script(["C09", "C06"], "Assertion.set_p_values/post (bounded: contests x assertions)", variants=P_SHAPES)
def set_p_values_post(S, I, variant):
    contests, log = p_setup(S, I, _SHAPE[variant[0]])
    fn = I.get(MOD, "Assertion.set_p_values")
    mv = []
    r, exc = guard(S, I, lambda: I.call(fn, [], {"contests": contests, "mvr_sample": mv, "cvr_sample": mv}))
    if exc:
        return
    all_p = [ZERO]
    order = []
    for cid, con in contests.items():
        ps = [ZERO]
        for a, asn in con.attrs["assertions"].items():
            sp = asn.spec
            order.append(sp["aid"])
            S.eq(f"[{sp['aid']}] p_value is what this assertion's test returned", asn.attrs["p_value"], sp["p"])
            S.holds(f"[{sp['aid']}] p_history is what this assertion's test returned", asn.attrs["p_history"] is sp["hist"])
            S.holds(f"[{sp['aid']}] proved' = (p <= this contest's risk limit) or proved",
                    biff(bterm(mkbool(I.truth_term(asn.attrs["proved"]))), bor(xcmp("<=", sp["p"], con.attrs["risk_limit"]), bterm(sp["old_proved"]))))
            S.holds(f"[{sp['aid']}] contest records mirror it", band(
                xsame(con.attrs["p_values"][a], sp["p"]),
                biff(bterm(mkbool(I.truth_term(con.attrs["proved"][a]))), bterm(mkbool(I.truth_term(asn.attrs["proved"]))))))
            ps.append(sp["p"])
        S.eq(f"[{cid}] max_p = largest p-value among its assertions", con.attrs["max_p"], xmax_nan(ps))
        S.holds(f"[{cid}] records exactly its assertions", set(con.attrs["p_values"].keys()) == set(con.attrs["assertions"].keys()))
        all_p.extend(ps[1:])
    S.eq("returned value = largest p-value over all contests", r, xmax_nan(all_p))
    # C06-c: at each call of a test, the bound installed in that test is the one returned with the data, and data in [0,u]
    S.holds("every assertion's test is called exactly once, in order", [l[0] for l in log] == order)
    for (aid, d, u_at_call) in log:
        asn = [a for con in contests.values() for a in con.attrs["assertions"].values() if a.spec["aid"] == aid][0]
        S.holds(f"[{aid}] the test receives this assertion's data", d is asn.spec["data"])
        S.eq(f"[{aid}] test.u at the time of the call = u returned with the data", u_at_call, asn.spec["u"])


@script(["C09"], "Audit.summarize_status/post (bounded: contests x assertions)", variants=P_SHAPES)
def summarize_status_post(S, I, variant):
    contests, log = p_setup(S, I, _SHAPE[variant[0]])
    audit = Obj(I.get(MOD, "Audit"), {})
    fn = I.getattr(audit, "summarize_status")
    r, exc = guard(S, I, lambda: I.call(fn, [], {"contests": contests}))
    if exc:
        return
    ok = True
    for cid, con in contests.items():
        for a, asn in con.attrs["assertions"].items():
            ok = band(ok, xcmp("<=", asn.attrs["p_value"], con.attrs["risk_limit"]))
    S.holds("complete <=> every assertion of every contest has p <= that contest's own risk limit",
            biff(bterm(mkbool(I.truth_term(r))), ok))


@script(["C09"], "Assertion.reset_p_values/post (bounded: contests x assertions)", variants=P_SHAPES)
def reset_p_values_post(S, I, variant):
    contests, log = p_setup(S, I, _SHAPE[variant[0]])
    fn = I.get(MOD, "Assertion.reset_p_values")
    r, exc = guard(S, I, lambda: I.call(fn, [], {"contests": contests}))
    if exc:
        return
    for cid, con in contests.items():
        for a, asn in con.attrs["assertions"].items():
            S.holds(f"[{cid}.{a}] p_value = 1, history empty, not proved",
                    band(bterm(I.equal(asn.attrs["p_value"], 1)), I.equal(asn.attrs["p_history"], []) is True,
                         bnot(I.truth_term(asn.attrs["proved"]))))
            S.holds(f"[{cid}.{a}] contest records reset", band(bterm(I.equal(con.attrs["p_values"][a], 1)), bnot(I.truth_term(con.attrs["proved"][a]))))
        S.holds(f"[{cid}] max_p = 1", bterm(I.equal(con.attrs["max_p"], 1)))


# ------------------------------------------------------------------ C02c / C03c,d / C06d: means, pool means, margins (bounded lists)

def cards_with_values(S, I, n, u_a, pools=("p1", "p2"), con_id="con"):
    cards, vals = [], []
    for i in range(n):
        tp = S.choose(f"tally_pool{i}", list(pools)) if pools else None
        cvr = rec_card(S, f"cvr{i}", sym_cvr(I, f"cvr{i}", {con_id: ["A", "B"]}, tally_pool=tp))
        cards.append(cvr)
        vals.append((cvr, S.real(f"assort_cvr{i}", lo=0, hi=u_a)))
    return cards, vals


LISTN = (("n0",), ("n1",), ("n2",), ("n3",))


@script(["C02", "C03", "C08"], "Assorter.mean+sum/post (bounded: n cards)", variants=tuple((n[0], s) for n in LISTN for s in ("style", "nostyle")))
def assorter_mean_post(S, I, variant):
    n = int(variant[0][1:])
    use_style = variant[1] == "style"
    u_a = S.real("u_a", lo=Fraction(1, 2))
    con = mk_contest(I, id="con", cards=10, candidates=["A", "B"], winner=["A"])
    cards, vals = cards_with_values(S, I, n, u_a, pools=None)
    assorter = abstract_assorter(S, I, con, u_a, vals)
    m, exc = guard(S, I, lambda: I.call(I.getattr(assorter, "mean"), [cards], {"use_style": use_style}))
    if exc:
        return
    sm, exc = guard(S, I, lambda: I.call(I.getattr(assorter, "sum"), [cards], {"use_style": use_style}))
    if exc:
        return
    c = ctx()
    tot, cnt = ZERO, 0
    for cv, a in vals:
        if c.decide(True if not use_style else has_contest(cv, "con")):
            tot = xadd(tot, a)
            cnt += 1
    S.eq("sum = sum of assort over the cards in the population (those listing the contest under style)", sm, tot)
    if cnt:
        S.eq("mean = that sum / their number", m, xdiv_np(tot, XR.const(cnt)))
    else:
        S.holds("mean of an empty population is NaN", xr(m).nan)


@script(["C02", "C03", "C08"], "Assorter.mean+sum/post (unbounded number of cards)", variants=(("style",), ("nostyle",)), optional=True)
def assorter_mean_unbounded(S, I, variant):
    use_style = variant[0] == "style"
    c = ctx()
    N = S.integer("n_cards", lo=0)
    u_a = S.real("u_a", lo=Fraction(1, 2))
    con = mk_contest(I, id="con", cards=10, candidates=["A", "B"], winner=["A"])
    cards = SymObjList(iterm(N), lambda i: sym_cvr(I, f"card@{z3.simplify(zi(i))}", {"con": ["A", "B"]}))
    assorter, value_of = lazy_assorter(S, I, con, u_a, None)
    # specification: sum / count over the cards of the population (those listing the contest when style information is used)
    inpop = lambda i: True if not use_style else has_contest(cards.at(i), "con")
    spec_sum = SymArr(iterm(N), lambda i: xite(inpop(i), value_of(cards.at(i)), XR.const(0, npk=True)), "xr").fold("+")
    spec_cnt = SymArr(iterm(N), lambda i: mkint(iite(inpop(i), 1, 0)), "int").fold("+")
    for meth in ("sum", "mean"):
        I.trace.pop("filtered_sum", None)
        I.trace.pop("filtered_mean", None)
        r, exc = guard(S, I, lambda: I.call(I.getattr(assorter, meth), [cards], {"use_style": use_style}))
        if exc:
            return
        tr = I.trace.get("filtered_sum" if meth == "sum" else "filtered_mean", [])
        if len(tr) != 1:
            raise NotApplicable(f"Assorter.{meth} is not one aggregate over a filtered comprehension of the card list")
        fa = tr[0][1] if meth == "sum" else tr[0][0]
        i = z3.Int(c.fresh("card"))
        with c.scope():
            c.assume(z3.And(i >= 0, i < zi(iterm(N))))
            value_of(cards.at(i))
            S.holds(f"[{meth}] card i is counted exactly when it is in the population; its term is assort(card i)",
                    band(icmp("==", fa.length, N), biff(fa.cond(i), inpop(i)),
                         bimp(inpop(i), xsame(xr(fa.elem(i)), value_of(cards.at(i))))))
        # extensionality of sums: same length, same summands => same sum (and same count)
        if meth == "sum":
            c.assume(xsame(xr(I.norm_scalar(r)), spec_sum.at(iterm(N))))
            S.eq("sum = sum of assort over the population", xr(I.norm_scalar(r)), spec_sum.at(iterm(N)))
        else:
            ind, cntarr = tr[0][1], tr[0][2]
            c.assume(xsame(xr(I.norm_scalar(ind.fold("+").at(iterm(N)))), spec_sum.at(iterm(N))))
            c.assume(icmp("==", cntarr.fold("+").at(iterm(N)), spec_cnt.at(iterm(N))))
            S.eq("mean = sum of assort over the population / size of the population (NaN if it is empty)",
                 xr(r), xdiv_np(spec_sum.at(iterm(N)).asnp(), XR.const(spec_cnt.at(iterm(N)), npk=True)))


@script(["C03"], "Assorter.set_tally_pool_means/post (bounded: n cards, 2 pools)", variants=tuple((n[0], s) for n in LISTN for s in ("style", "nostyle")))
def set_tally_pool_means_post(S, I, variant):
    n = int(variant[0][1:])
    use_style = variant[1] == "style"
    u_a = S.real("u_a", lo=Fraction(1, 2))
    con = mk_contest(I, id="con", cards=10, candidates=["A", "B"], winner=["A"])
    cards, vals = cards_with_values(S, I, n, u_a)
    assorter = abstract_assorter(S, I, con, u_a, vals)
    _, exc = guard(S, I, lambda: I.call(I.getattr(assorter, "set_tally_pool_means"), [], {"cvr_list": cards, "use_style": use_style}))
    if exc:
        return
    means = assorter.attrs["tally_pool_means"]
    c = ctx()
    exp = {}
    for cv, a in vals:
        if c.decide(bterm(cv.attrs["pool"])):
            p = cv.attrs["tally_pool"]
            tot, cnt = exp.get(p, (ZERO, 0))
            if c.decide(True if not use_style else has_contest(cv, "con")):
                tot, cnt = xadd(tot, a), cnt + 1
            exp[p] = (tot, cnt)
    S.holds("one mean per pooled tally pool", isinstance(means, dict) and set(means.keys()) == set(exp.keys()))
    if isinstance(means, dict) and set(means.keys()) == set(exp.keys()):
        for p, (tot, cnt) in exp.items():
            if cnt:
                S.eq(f"[{p}] mean n_p = sum of assort over the pool's cards in the population", xmul(means[p], XR.const(cnt)), tot)
                S.holds(f"[{p}] mean in [0,u]", band(xcmp(">=", means[p], ZERO), xcmp("<=", means[p], u_a)))
            else:
                S.holds(f"[{p}] NaN for a pool with no card in the population", xr(means[p]).nan)


@script(["C03", "C06"], "Assertion.set_margin_from_cvrs/post (bounded: n cards)", variants=tuple((n[0], a) for n in (("n1",), ("n2",)) for a in ("POLLING", "CARD_COMPARISON", "ONEAUDIT")))
def set_margin_from_cvrs_post(S, I, variant):
    n = int(variant[0][1:])
    atype = variant[1]
    use_style = S.boolean("use_style")
    u_a = S.real("u_a", lo=Fraction(1, 2))
    con = mk_contest(I, id="con", cards=10, candidates=["A", "B"], winner=["A"], audit_type=atype)
    cards, vals = cards_with_values(S, I, n, u_a, pools=None)
    assorter = abstract_assorter(S, I, con, u_a, vals)
    NM = I.get("shangrla.core.NonnegMean", "NonnegMean")
    test = Obj(NM, {"u": S.real("stale_u", lo_strict=0)})
    asn = Obj(I.get(MOD, "Assertion"), {"contest": con, "assorter": assorter, "margin": None, "test": test, "winner": "A", "loser": "B",
                                        "p_value": 1, "p_history": [], "proved": False, "sample_size": None, "estim": None, "bet": None,
                                        "test_kwargs": {}})
    stratum = Obj(I.get(MOD, "Stratum"), {"use_style": use_style, "max_cards": 10})
    audit = Obj(I.get(MOD, "Audit"), {"strata": {"s": stratum}})
    _, exc = guard(S, I, lambda: I.call(I.getattr(asn, "set_margin_from_cvrs"), [], {"audit": audit, "cvr_list": cards}))
    if exc:
        return
    c = ctx()
    us = c.decide(bterm(use_style))
    tot, cnt = ZERO, 0
    for cv, a in vals:
        if c.decide(True if not us else has_contest(cv, "con")):
            tot, cnt = xadd(tot, a), cnt + 1
    if cnt == 0:
        S.holds("margin of an empty population is NaN", xr(asn.attrs["margin"]).nan)
        return
    mean = xdiv_np(tot, XR.const(cnt))
    v = xsub(xmul(XR.const(2), mean), ONE)
    S.eq("margin = 2 mean(assort over the population) - 1", asn.attrs["margin"], v)
    if atype == "POLLING":
        S.eq("test.u = assorter bound", test.attrs["u"], u_a)
    else:
        S.eq("test.u = 2/(2 - v/u_assorter)", test.attrs["u"], xdiv_np(XR.const(2), xsub(XR.const(2), xdiv_np(v, u_a))))


# ------------------------------------------------------------------ C02f: Contest.tally (bounded)

@script(["C02"], "Contest.tally/post (bounded: n cards, 3 candidates)", variants=tuple((n[0], e) for n in (("n1",), ("n2",)) for e in ("enforce", "noenforce")))
def contest_tally_post(S, I, variant):
    n = int(variant[0][1:])
    enforce = variant[1] == "enforce"
    cands = ["A", "B", "C"]
    k = S.choose("n_winners", [1, 2])
    con = mk_contest(I, id="con", cards=10, candidates=cands, winner=["A"], n_winners=k, choice_function="PLURALITY")
    irv = mk_contest(I, id="irv", cards=10, candidates=cands, winner=["A"], choice_function="IRV")
    cards = [rec_card(S, f"cvr{i}", sym_cvr(I, f"cvr{i}", {"con": cands})) for i in range(n)]
    fn = I.get(MOD, "Contest.tally")
    _, exc = guard(S, I, lambda: I.call(fn, [], {"con_dict": {"con": con, "irv": irv}, "cvr_list": cards, "enforce_rules": enforce}))
    if exc:
        return
    tally = con.attrs["tally"]
    for cand in cands:
        exp = 0
        for cv in cards:
            marks = 0
            for c2 in cands:
                marks = mkint(iadd(marks, iite(card_vote(cv, "con", c2), 1, 0)))
            counted = band(card_vote(cv, "con", cand), True if not enforce else icmp("<=", marks, k))
            exp = mkint(iadd(exp, iite(counted, 1, 0)))
        got = I.getitem(tally, cand)
        S.holds(f"tally[{cand}] = number of cards with a mark for {cand} that pass the rule filter", icmp("==", got, exp))
    S.holds("IRV contest is not tabulated", irv.attrs["tally"] is None)


class CounterLoopSummary:
    """`for rec in L: body` over a symbolic-length record list, where the body only adds to integer counters held in dicts
    (`d[key] += ...`).  counters: list of (dict object, key, spec(j)) with spec(j) the counter's value after the first j records.
    The REAL body is run on an arbitrary record j with every counter set to spec(j); obligation: afterwards every counter equals
    spec(j+1) and no other key was created with a non-zero value.  After the loop every counter is spec(n)."""

    def __init__(self, S, counters):
        self.S, self.counters = S, counters
        self.ran = False

    def run_for(self, I, st, env, in_class):
        import ast
        from pyvc.interp import Env
        S, c = self.S, ctx()
        lst = I.eval(st.iter, env)
        if not isinstance(lst, SymObjList) or not isinstance(st.target, ast.Name):
            raise NotApplicable("loop is not `for record in <symbolic-length list>`")
        n = lst.length
        for d, key, spec in self.counters:
            S.holds(f"counter [{key}] starts at its initial value", icmp("==", d.get(key, 0), spec(0)))
        j0 = z3.Int(c.fresh("rec"))
        with c.scope():
            c.assume(z3.And(j0 >= 0, j0 < zi(n)))
            saved = [(d, dict(d)) for d in {id(d): d for d, _, _ in self.counters}.values()]
            for d, key, spec in self.counters:
                d[key] = spec(j0)
            env2 = Env({st.target.id: lst.at(j0)}, env, env.module)
            env2.fn_qual = getattr(env, "fn_qual", None)
            run_loop_body(I, st, env2, in_class)
            known = {(id(d), key) for d, key, _ in self.counters}
            for d, key, spec in self.counters:
                S.holds(f"counter [{key}] after record j = its value over the first j+1 records", icmp("==", d.get(key, 0), spec(j0 + 1)))
            for d, before in saved:
                extra = [k for k in d if (id(d), k) not in known]
                S.holds("no other counter is touched", all(I.equal(d[k], before.get(k, 0)) is True for k in extra))
            for d, before in saved:
                d.clear()
                d.update(before)
        for d, key, spec in self.counters:
            d[key] = spec(n)
        self.ran = True


@script(["C02"], "Contest.tally/post (unbounded number of cards, 3 candidates)", variants=(("enforce",), ("noenforce",)), optional=True)
def contest_tally_unbounded(S, I, variant):
    enforce = variant[0] == "enforce"
    c = ctx()
    cands = ["A", "B", "C"]
    N = S.integer("n_cards", lo=0)
    k = S.choose("n_winners", [1, 2])
    con = mk_contest(I, id="con", cards=10, candidates=cands, winner=["A"], n_winners=k, choice_function="PLURALITY")
    irv = mk_contest(I, id="irv", cards=10, candidates=cands, winner=["A"], choice_function="IRV")
    cards = SymObjList(iterm(N), lambda i: sym_cvr(I, f"card@{z3.simplify(zi(i))}", {"con": cands}))

    def counted(cand, i):
        cv = cards.at(i)
        marks = 0
        for c2 in cands:
            marks = mkint(iadd(marks, iite(card_vote(cv, "con", c2), 1, 0)))
        return band(card_vote(cv, "con", cand), True if not enforce else icmp("<=", marks, k))

    spec = {cand: SymArr(iterm(N), (lambda cand: (lambda i: mkint(iite(counted(cand, i), 1, 0))))(cand), "int").fold("+") for cand in cands}
    import ast as _ast
    holder = {}

    class Late:
        """the counters live in the tally dict the function creates: bound when the loop over the cards starts"""
        def run_for(self_, I_, st, env, in_class):
            tally = con.attrs.get("tally")
            if not isinstance(tally, dict):
                raise NotApplicable("the tally is not a dict of counters")
            summ = CounterLoopSummary(S, [(tally, cand, (lambda cand: (lambda j: spec[cand].at(j)))(cand)) for cand in cands])
            holder["summ"] = summ
            return summ.run_for(I_, st, env, in_class)

    I.loop_matchers["Contest.tally"] = [
        (lambda st: isinstance(st, _ast.For) and isinstance(st.iter, _ast.Name) and st.iter.id == "cvr_list", Late())]
    fn = I.get(MOD, "Contest.tally")
    _, exc = guard(S, I, lambda: I.call(fn, [], {"con_dict": {"con": con, "irv": irv}, "cvr_list": cards, "enforce_rules": enforce}))
    if exc:
        return
    if "summ" not in holder or not holder["summ"].ran:
        raise NotApplicable("the loop over the cards was not recognised")
    tally = con.attrs["tally"]
    for cand in cands:
        S.holds(f"tally[{cand}] = number of cards with a mark for {cand} that pass the rule filter",
                icmp("==", I.getitem(tally, cand), spec[cand].at(iterm(N))))
    S.holds("IRV contest is not tabulated", irv.attrs["tally"] is None)


# ------------------------------------------------------------------ C03e: pooled CVRs list every contest of their pool (bounded)

@script(["C03"], "CVR.pool_contests+add_pool_contests/post (bounded: n cards, 2 pools, 2 contests)", variants=(("n1",), ("n2",), ("n3",)))
def pool_contests_post(S, I, variant):
    n = int(variant[0][1:])
    cards = []
    for i in range(n):
        tp = S.choose(f"tally_pool{i}", ["p1", 0])          # (a pool may be labelled 0 or '': a label is a label)
        cards.append(rec_card(S, f"cvr{i}", sym_cvr(I, f"cvr{i}", {"c1": ["A"], "c2": ["A"]}, tally_pool=tp)))
    pc = I.get(MOD, "CVR.pool_contests")
    apc = I.get(MOD, "CVR.add_pool_contests")
    before = [(has_contest(cv, "c1"), has_contest(cv, "c2")) for cv in cards]
    pools, exc = guard(S, I, lambda: I.call(pc, [cards], {}))
    if exc:
        return
    c = ctx()
    # expected: for each pool with a pooled card, the union of the contests on its pooled cards
    exp = {}
    for cv, (h1, h2) in zip(cards, before):
        if c.decide(bterm(cv.attrs["pool"])):
            s_ = exp.setdefault(cv.attrs["tally_pool"], set())
            if c.decide(h1):
                s_.add("c1")
            if c.decide(h2):
                s_.add("c2")
    got = {k: set(v) for k, v in pools.items()}
    S.holds("pool_contests: union of contests over the pooled cards of each pool", got == exp)
    _, exc = guard(S, I, lambda: I.call(apc, [cards, pools], {}))
    if exc:
        return
    for cv, (h1, h2) in zip(cards, before):
        pooled = c.decide(bterm(cv.attrs["pool"]))
        for cid, hb in (("c1", h1), ("c2", h2)):
            want = bor(hb, pooled and cid in exp.get(cv.attrs["tally_pool"], set()))
            S.holds(f"[{cv.attrs['id']}] lists {cid} afterwards iff it did before or its pool does", biff(has_contest(cv, cid), want))
            # an added contest is empty, so every shipped assorter scores it as a non-vote (1/2)
            if pooled and cid in exp.get(cv.attrs["tally_pool"], set()):
                inner = cv.attrs["votes"].vals[cid]
                S.holds(f"[{cv.attrs['id']}] a contest added to {cid} carries no mark", bimp(bnot(hb), bnot(card_vote(cv, cid, "A"))))


# heavy bounded variants run in the thorough tier only
for _d in SCRIPTS:
    if any(t in _d["name"] for t in ("[n3,style", "set_p_values/post (bounded: contests x assertions)[3x", "2 pools, 2 contests)[n3]",
                                     "set_tally_pool_means/post (bounded: n cards, 2 pools)[n3,style", "3 candidates)[n2,enforce")):
        _d["thorough_only"] = True


# ------------------------------------------------------------------ C16d: interleave_values (unbounded, loop invariant)

class InterleaveInvariant:
    """loop 0 of Assertion.interleave_values:  for i in range(1, N).
    Invariant at the head of iteration i (1 <= i <= N):
      i_s + i_m + i_b = i,  0 <= i_* <= n_*,  r_* = (n_* - i_*)/n_* (0 for an empty class),
      and among x[0..i) exactly i_s entries equal `small`, i_m equal `med`, i_b equal `big` (ghost counts)."""

    def __init__(self, S, ns, nm, nb, small, med, big):
        self.S = S
        self.n = (ns, nm, nb)
        self.vals = (small, med, big)

    def counts(self, x):
        N = x.length
        out = []
        for v in self.vals:
            ind = SymArr(N, (lambda v: (lambda k: mkint(iite(xsame(x.at(k), v), 1, 0))))(v), "int")
            out.append(ind.fold("+"))
        return out

    def inv(self, env, i, x, cnt):
        ns, nm, nb = self.n
        i_s, i_m, i_b = env["i_small"], env["i_med"], env["i_big"]
        rs, rm, rb = xr(env["r_small"]), xr(env["r_med"]), xr(env["r_big"])
        frac = lambda n, k: xdiv_np(XR.const(mkint(isub(n, k))), XR.const(n))
        return [
            ("counters sum to i", icmp("==", iadd(iadd(i_s, i_m), i_b), i)),
            ("0 <= i_* <= n_*", band(icmp(">=", i_s, 0), icmp("<=", i_s, ns), icmp(">=", i_m, 0), icmp("<=", i_m, nm),
                                    icmp(">=", i_b, 0), icmp("<=", i_b, nb))),
            ("r_small", xsame(rs, xite(icmp(">", ns, 0), frac(ns, i_s), XR.const(0)))),
            ("r_med", xsame(rm, xite(icmp(">", nm, 0), frac(nm, i_m), XR.const(0)))),
            ("r_big", xsame(rb, xite(icmp(">", nb, 0), frac(nb, i_b), XR.const(0)))),
            ("ghost counts", band(icmp("==", cnt[0].at(i), i_s), icmp("==", cnt[1].at(i), i_m), icmp("==", cnt[2].at(i), i_b))),
        ]

    def run_for(self, I, st, env, in_class):
        from pyvc.interp import CutPath
        from .nonneg import scoped_induction
        S = self.S
        c = ctx()
        ns, nm, nb = self.n
        N = mkint(iadd(iadd(ns, nm), nb))
        import ast as _ast
        if not all(k in env.vars for k in ("x", "i_small", "i_med", "i_big", "r_small", "r_med", "r_big")) or \
                not (isinstance(st.target, _ast.Name) and st.target.id == "i"):
            raise NotApplicable("loop state of interleave_values not recognised (the invariant names the locals of the pinned code)")
        x0 = env.vars["x"]
        cnt0 = self.counts(x0)
        for nm_, g in self.inv(env.vars, 1, x0, cnt0):
            S.holds("interleave.inv.entry: " + nm_, g)
        mode = c.decide(z3.Bool(c.fresh("interleave_branch_preserve")))
        fresh_state = lambda tag: {k: SInt(z3.Int(c.fresh(k + tag))) for k in ("i_small", "i_med", "i_big")}
        if mode:
            i = z3.Int(c.fresh("li"))
            c.assume(z3.And(i >= 1, i < zi(iterm(N))))
            X = z3.Function(c.fresh("X"), z3.IntSort(), z3.RealSort())
            x = SymArr(N, lambda k: XR(X(zi(k)), npk=True), "xr")
            st_ = fresh_state("@")
            for k, v in st_.items():
                env.vars[k] = v
            frac = lambda n, k: xdiv_np(XR.const(mkint(isub(n, k))), XR.const(n))
            env.vars["r_small"] = xite(icmp(">", ns, 0), frac(ns, st_["i_small"]), XR.const(0))
            env.vars["r_med"] = xite(icmp(">", nm, 0), frac(nm, st_["i_med"]), XR.const(0))
            env.vars["r_big"] = xite(icmp(">", nb, 0), frac(nb, st_["i_big"]), XR.const(0))
            for r_ in ("r_small", "r_med", "r_big"):
                env.vars[r_].npk = False
            env.vars["x"] = x
            env.vars["i"] = SInt(i)
            cnt = self.counts(x)
            for nm_, g in self.inv(env.vars, i, x, cnt):
                c.assume(g)
            xold = x.copy()
            run_loop_body(I, st, env, in_class)
            x2 = env.vars["x"]
            cnt2 = self.counts(x2)
            # entries below i are untouched, so the ghost counts up to i are unchanged (induction), then one step
            for q in range(3):
                inst = scoped_induction(S, f"interleave.counts[{q}] below i unchanged", lambda k, q=q: icmp("==", cnt2[q].at(k), cnt[q].at(k)), i)
                inst(i)
            for nm_, g in self.inv(env.vars, i + 1, x2, cnt2):
                S.holds("interleave.inv.preserved: " + nm_, g)
            raise CutPath()
        # after the loop: invariant at i = N
        X = z3.Function(c.fresh("Xf"), z3.IntSort(), z3.RealSort())
        x = SymArr(N, lambda k: XR(X(zi(k)), npk=True), "xr")
        st_ = fresh_state("!")
        for k, v in st_.items():
            env.vars[k] = v
        env.vars["x"] = x
        frac = lambda n, k: xdiv_np(XR.const(mkint(isub(n, k))), XR.const(n))
        env.vars["r_small"] = xite(icmp(">", ns, 0), frac(ns, st_["i_small"]), XR.const(0))
        env.vars["r_med"] = xite(icmp(">", nm, 0), frac(nm, st_["i_med"]), XR.const(0))
        env.vars["r_big"] = xite(icmp(">", nb, 0), frac(nb, st_["i_big"]), XR.const(0))
        cnt = self.counts(x)
        self.final_counts = cnt
        for nm_, g in self.inv(env.vars, iterm(N), x, cnt):
            c.assume(g)


@script(["C16"], "Assertion.interleave_values/post (loop invariant, unbounded)", optional=True)
def interleave_values_post(S, I, variant):
    ns = S.integer("n_small", lo=0)
    nm = S.integer("n_med", lo=0)
    nb = S.integer("n_big", lo=0)            # (n_big = 0 was K7: division by zero; repaired by fix 4c5541d, now part of the proof)
    ctx().assume(icmp(">=", iadd(iadd(ns, nm), nb), 1))       # a non-empty population
    small = S.real("small")
    med = S.real("med", lo_strict=small)
    big = S.real("big", lo_strict=med)
    fn = I.get(MOD, "Assertion.interleave_values")
    inv = InterleaveInvariant(S, ns, nm, nb, small.asnp(), med.asnp(), big.asnp())
    I.invariants[("Assertion.interleave_values", "for", 0)] = inv
    from pyvc.interp import CutPath
    S.native_desc = None
    try:
        r, exc = guard(S, I, lambda: I.call(fn, [ns, nm, nb], {"small": small, "med": med, "big": big}))
    except CutPath:
        return
    if exc:
        return
    N = mkint(iadd(iadd(ns, nm), nb))
    S.holds("length = n_small + n_med + n_big", icmp("==", r.length, N))
    cnt = inv.counts(r)
    fc = getattr(inv, "final_counts", None)
    if fc is None:
        S.holds("loop reached", False)
        return
    S.holds("exactly n_small entries equal `small`", icmp("==", fc[0].at(iterm(N)), ns))
    S.holds("exactly n_med entries equal `med`", icmp("==", fc[1].at(iterm(N)), nm))
    S.holds("exactly n_big entries equal `big`", icmp("==", fc[2].at(iterm(N)), nb))
    S.holds("the returned array is the one the loop filled", r is not None)


# ------------------------------------------------------------------ C18: merge_cvrs (structure-bounded, symbolic flags / contents)

def _partitions(n):
    """id patterns for n records as restricted growth strings, e.g. n=3: aaa aab aba abb abc"""
    out = [[0]]
    for _ in range(n - 1):
        out = [p + [k] for p in out for k in range(max(p) + 2)]
    return ["".join("abcdefgh"[k] for k in p) for p in out]


@script(["C18"], "CVR.merge_cvrs/post (bounded: n records, every id pattern; symbolic flags, presence and tally pools)",
        variants=tuple((p,) for n in (1, 2, 3) for p in _partitions(n)))
def merge_cvrs_post(S, I, variant):
    pat = variant[0]
    n = len(pat)
    CVR = I.get(MOD, "CVR")
    recs = []
    for i, ident in enumerate(pat):
        votes = OptDict()
        for cid in ("c1", "c2"):
            votes.keys.append(cid)
            votes.pres[cid] = mkbool(z3.Bool(f"r{i}.lists[{cid}]"))
            # contents differ per record in a shared and in a private candidate: the surviving contents must be exactly one record's
            votes.vals[cid] = {"shared": i, f"only_on_record_{i}": 1}
        tp = S.choose(f"tally_pool{i}", [None, "p", "q", 0, ""] if n <= 2 else [None, "p", "q"])
        o = Obj(CVR, {"id": ident, "votes": votes, "phantom": S.boolean(f"phantom{i}"), "pool": S.boolean(f"pool{i}"),
                      "tally_pool": tp, "sample_num": None, "p": None, "sampled": False, "card_in_batch": None})
        o.spec = {"lists": {cid: bterm(votes.pres[cid]) for cid in ("c1", "c2")}, "phantom": bterm(o.attrs["phantom"]),
                  "pool": bterm(o.attrs["pool"]), "tp": tp, "i": i, "id": ident}
        S._rec(f"rec{i}", o)
        recs.append(o)
    fn = I.get(MOD, "CVR.merge_cvrs")
    r, exc = guard(S, I, lambda: I.call(fn, [list(recs)], {}), allowed=("ValueError",))
    # oracle (property text)
    groups = {}
    for o in recs:
        groups.setdefault(o.spec["id"], []).append(o.spec)
    conflict = False
    for ident, g in groups.items():
        labels = [s["tp"] for s in g if s["tp"] is not None]
        if len({(type(x).__name__, x) for x in labels}) > 1:
            conflict = True
    if exc:
        S.holds("ValueError only for records of one card carrying different tally pools", conflict)
        return
    S.holds("no error => no tally-pool conflict", not conflict)
    if conflict:
        return
    S.holds("one record per identifier, in first-appearance order", [o.attrs["id"] for o in r] == list(groups.keys()))
    if [o.attrs["id"] for o in r] != list(groups.keys()):
        return
    for o in r:
        g = groups[o.attrs["id"]]
        votes = o.attrs["votes"]
        for cid in ("c1", "c2"):
            listed = bor(*[s["lists"][cid] for s in g])
            has = bterm(votes.has(cid)) if isinstance(votes, OptDict) else (cid in votes)
            S.holds(f"[{o.attrs['id']}] lists {cid} iff some record of the card does", biff(has, listed))
            # the later record wins within a contest
            for k, s in enumerate(g):
                later = bor(*[t["lists"][cid] for t in g[k + 1:]]) if g[k + 1:] else False
                winner_here = band(s["lists"][cid], bnot(later))
                val = votes.vals[cid] if isinstance(votes, OptDict) else votes.get(cid)
                if isinstance(val, dict):
                    S.holds(f"[{o.attrs['id']}] {cid}: contents of the last record listing it survive (record {s['i']})",
                            bimp(winner_here, val == {"shared": s["i"], f"only_on_record_{s['i']}": 1}))
                else:
                    # merged symbolically: the surviving content is a conditional over records; check through its guard structure
                    S.holds(f"[{o.attrs['id']}] {cid}: merged contents stay a dict", False)
        S.holds(f"[{o.attrs['id']}] phantom only if all were", biff(I.truth_term(o.attrs["phantom"]), band(*[s["phantom"] for s in g])))
        pv = o.attrs["pool"]
        S.holds(f"[{o.attrs['id']}] pool is a true/false value", isinstance(pv, (bool, SBool)))
        if isinstance(pv, (bool, SBool)):
            S.holds(f"[{o.attrs['id']}] pooled iff at least one was", biff(bterm(pv), bor(*[s["pool"] for s in g])))
        labels = [s["tp"] for s in g if s["tp"] is not None]
        S.holds(f"[{o.attrs['id']}] keeps the common tally pool",
                (o.attrs["tally_pool"] is None) if not labels else (o.attrs["tally_pool"] is not None and o.attrs["tally_pool"] == labels[0]
                                                                     and type(o.attrs["tally_pool"]) == type(labels[0])))


# ------------------------------------------------------------------ C16c: Assertion.find_sample_size, hypothetical data (unbounded N)

def sample_size_stub(calls, ret):
    """NonnegMean.sample_size abstracted by its interface: records the population and the arguments it was called with, however
    they were passed (positionally or by keyword: sample_size(x, alpha, reps, prefix, quantile, seed=..))"""
    def sample_size(I_, a, k):
        got = dict(zip(["x", "alpha", "reps", "prefix", "quantile", "seed"], a))
        got.update(k)
        x = got.pop("x", None)
        calls.append((x, got))
        return ret
    return sample_size



@script(["C16"], "Assertion.find_sample_size/comparison data (symbolic N, rates)", variants=(("both",), ("rate1",), ("rate2",), ("none",)))
def find_sample_size_comparison(S, I, variant):
    N = S.integer("N", lo=1)
    u_a = S.real("u_a", lo=Fraction(1, 2))
    v = S.real("margin", lo_strict=0)
    ctx().assume(xcmp("<=", v, xsub(xmul(XR.const(2), u_a), ONE)))
    s1 = S.integer("step_1", lo=1)       # int(1/rate_1)
    s2 = S.integer("step_2", lo=1)       # int(1/rate_2)
    rl = S.real("risk_limit", lo_strict=0, hi=Fraction(1, 2))
    atype = S.choose("audit_type", ["CARD_COMPARISON", "ONEAUDIT"])
    con = mk_contest(I, id="con", cards=N, candidates=["A", "B"], winner=["A"], audit_type=atype, risk_limit=rl)
    calls = []
    ret = S.integer("estimate", lo=1)

    sample_size = sample_size_stub(calls, ret)

    NM = I.get("shangrla.core.NonnegMean", "NonnegMean")
    test = Obj(NM, {"N": N, "u": XR.const(1), "sample_size": Builtin("abstract_sample_size", sample_size)})
    assorter = abstract_assorter(S, I, con, u_a, [])
    asn = Obj(I.get(MOD, "Assertion"), {"contest": con, "assorter": assorter, "margin": v, "test": test, "winner": "A", "loser": "B",
                                        "sample_size": None})
    # rates whose reciprocals truncate to the symbolic steps: rate = 1/step exactly (int(1/(1/s)) = s in the exact-real model)
    r1 = xdiv_np(ONE, XR.const(s1)) if variant[0] in ("both", "rate1") else None
    r2 = xdiv_np(ONE, XR.const(s2)) if variant[0] in ("both", "rate2") else None
    if r1 is not None:
        r1.npk = False
    if r2 is not None:
        r2.npk = False
    kw = {"rate_1": r1 if r1 is not None else XR.const(0), "rate_2": r2 if r2 is not None else XR.const(0)}
    out, exc = guard(S, I, lambda: I.call(I.getattr(asn, "find_sample_size"), [], kw))
    if exc:
        return
    S.holds("the test's estimator is called exactly once", len(calls) == 1)
    if len(calls) != 1:
        return
    x, kws = calls[0]
    S.holds("returns and records the test's estimate", band(bterm(I.equal(out, ret)), bterm(I.equal(asn.attrs["sample_size"], ret))))
    S.holds("delegates with the contest's own risk limit", kws.get("alpha") is rl)
    S.holds("one hypothetical value per card of the population", icmp("==", x.length, N))
    den = xsub(XR.const(2), xdiv_np(v, u_a))
    big = xdiv_np(ONE, den)
    small = xdiv_np(xsub(ONE, xdiv_np(HALF, u_a)), den)
    c = ctx()
    i = z3.Int(c.fresh("i"))
    c.assume(z3.And(i >= 0, i < zi(iterm(N))))
    two = (i % zi(iterm(s2)) == 0) if r2 is not None else False
    one_ = (i % zi(iterm(s1)) == 0) if r1 is not None else False
    exp = xite(two, ZERO, xite(one_, small, big))
    S.eq("x[i] = 0 at multiples of int(1/rate_2), else the one-vote overstatement value at multiples of int(1/rate_1), else the error-free value",
         x.at(i), exp)


@script(["C16"], "Assertion.find_sample_size/supplied data and simulation arguments are handed to the test unchanged",
        variants=(("data",), ("comparison",), ("polling",)))
def find_sample_size_delegation(S, I, variant):
    """whatever branch builds the population, the test's estimator receives the caller's prefix flag, number of repetitions,
    quantile and seed, the contest's own risk limit, and (when data are supplied) exactly those data"""
    c = ctx()
    N = S.integer("N", lo=1)
    u_a = S.real("u_a", lo=Fraction(1, 2))
    v = S.real("margin", lo_strict=0)
    c.assume(xcmp("<=", v, xsub(xmul(XR.const(2), u_a), ONE)))
    rl = S.real("risk_limit", lo_strict=0, hi=Fraction(1, 2))
    atype = {"data": S.choose("audit_type", ["POLLING", "CARD_COMPARISON"]), "comparison": "CARD_COMPARISON", "polling": "POLLING"}[variant[0]]
    con = mk_contest(I, id="con", cards=N, candidates=["W", "L"], winner=["W"], audit_type=atype, risk_limit=rl)
    con.attrs["tally"] = {"W": S.integer("tally_W", lo=0), "L": S.integer("tally_L", lo=0)}
    c.assume(icmp("<=", iadd(con.attrs["tally"]["W"], con.attrs["tally"]["L"]), N))
    calls = []
    ret = S.integer("estimate", lo=1)

    sample_size = sample_size_stub(calls, ret)

    I.contracts["Assertion.interleave_values"] = lambda I_, fn, args, kwargs: S.array("interleaved", N, 0, None)
    NM = I.get("shangrla.core.NonnegMean", "NonnegMean")
    test = Obj(NM, {"N": N, "u": u_a, "sample_size": Builtin("abstract_sample_size", sample_size)})
    assorter = abstract_assorter(S, I, con, u_a, [])
    asn = Obj(I.get(MOD, "Assertion"), {"contest": con, "assorter": assorter, "margin": v, "test": test, "winner": "W", "loser": "L",
                                        "sample_size": None})
    prefix = S.boolean("prefix")
    reps = S.choose("reps", [None, 7])
    quantile = S.real("quantile", lo_strict=0, hi_strict=1)
    seed = S.integer("seed", lo=0)
    kw = {"prefix": prefix, "reps": reps, "quantile": quantile, "seed": seed}
    data = None
    if variant[0] == "data":
        data = S.array("data", S.integer("n_data", lo=1), 0, None)
        kw["data"] = data
    else:
        kw["rate_1"], kw["rate_2"] = XR.const(0), XR.const(0)
    out, exc = guard(S, I, lambda: I.call(I.getattr(asn, "find_sample_size"), [], kw))
    if exc:
        return
    S.holds("the test's estimator is called exactly once", len(calls) == 1)
    if len(calls) != 1:
        return
    x, kws = calls[0]
    if data is not None:
        S.holds("the supplied data are what the test is run on", x is data)
    S.holds("risk limit, prefix flag, repetitions, quantile and seed reach the test unchanged",
            kws.get("alpha") is rl and kws.get("prefix", False) is prefix and kws.get("reps") is reps
            and kws.get("quantile", None) is quantile and kws.get("seed", None) is seed)
    S.holds("returns and records the test's estimate", band(bterm(I.equal(out, ret)), bterm(I.equal(asn.attrs["sample_size"], ret))))


@script(["C16"], "Assertion.find_sample_size/polling data (symbolic tallies of 3 candidates, symbolic N)")
def find_sample_size_polling(S, I, variant):
    """the hypothetical population for a polling audit: the reported tallies interleaved -- loser's votes at 0, winner's votes at the
    assorter's upper bound, every other card (other candidates, no valid vote) at 1/2; interleave_values is used through its
    contract (proved by the loop-invariant script), the test's estimator through its interface"""
    c = ctx()
    N = S.integer("N", lo=1)
    u_a = S.real("u_a", lo=Fraction(1, 2))
    v = S.real("margin", lo_strict=0)
    rl = S.real("risk_limit", lo_strict=0, hi=Fraction(1, 2))
    tW, tL, tO = S.integer("tally_W", lo=0), S.integer("tally_L", lo=0), S.integer("tally_O", lo=0)
    c.assume(icmp("<=", iadd(iadd(tW, tL), tO), N))
    con = mk_contest(I, id="con", cards=N, candidates=["W", "L", "O"], winner=["W"], audit_type="POLLING", risk_limit=rl)
    con.attrs["tally"] = {"W": tW, "L": tL, "O": tO}
    calls, ivcalls = [], []
    ret = S.integer("estimate", lo=1)

    sample_size = sample_size_stub(calls, ret)

    pop = S.array("interleaved", N, 0, None)

    def interleave_contract(I_, fn, args, kwargs):
        names = ["n_small", "n_med", "n_big", "small", "med", "big"]
        args = [a_ for a_ in args if type(a_).__name__ != "ClassRef"]       # (classmethod: the class itself may be passed first)
        got = dict(zip(names, args))
        got.update(kwargs)
        ivcalls.append(got)
        return pop

    I.contracts["Assertion.interleave_values"] = interleave_contract
    NM = I.get("shangrla.core.NonnegMean", "NonnegMean")
    test = Obj(NM, {"N": N, "u": u_a, "sample_size": Builtin("abstract_sample_size", sample_size)})
    assorter = abstract_assorter(S, I, con, u_a, [])
    asn = Obj(I.get(MOD, "Assertion"), {"contest": con, "assorter": assorter, "margin": v, "test": test, "winner": "W", "loser": "L",
                                        "sample_size": None})
    out, exc = guard(S, I, lambda: I.call(I.getattr(asn, "find_sample_size"), [], {}))
    if exc:
        return
    S.holds("the population is built by one call of interleave_values and estimated by one call of the test", len(ivcalls) == 1 and len(calls) == 1)
    if len(ivcalls) != 1 or len(calls) != 1:
        return
    g = ivcalls[0]
    S.holds("loser's votes are the 0s, winner's votes the values at the upper bound, every other card of the population a 1/2",
            band(icmp("==", g["n_small"], tL), icmp("==", g["n_big"], tW), icmp("==", g["n_med"], isub(isub(N, tL), tW))))
    S.holds("values: 0 (default), 1/2 (default), assorter upper bound",
            band(bterm(I.equal(g.get("small", 0), 0)), xsame(xr(g.get("med", HALF)), HALF), xsame(xr(g["big"]), u_a)))
    x, kws = calls[0]
    S.holds("the test is run on exactly that population, with the contest's own risk limit", x is pop and kws.get("alpha") is rl)
    S.holds("returns and records the test's estimate", band(bterm(I.equal(out, ret)), bterm(I.equal(asn.attrs["sample_size"], ret))))


# ------------------------------------------------------------------ C06 / C07: mvrs_to_data, UNBOUNDED number of sampled cards

def lazy_assorter(S, I, con, u_a, means):
    """Assorter abstracted by its interface contract, for an unbounded number of cards: each card gets its own value in [0, u]"""
    cls = I.get(MOD, "Assorter")
    vals, keep = {}, []

    def value_of(card):
        if id(card) not in vals:
            keep.append(card)
            v = XR.finvar(ctx().fresh("assort_value"))
            ctx().assume(band(xcmp(">=", v, ZERO), xcmp("<=", v, u_a)), definitional=True)
            vals[id(card)] = v
        return vals[id(card)]

    def assort(I_, a, k):
        return value_of(a[0] if a else next(iter(k.values())))

    obj = Obj(cls, {"contest": con, "assort": Builtin("abstract_assort", assort), "upper_bound": u_a,
                    "tally_pool_means": means, "winner": None, "loser": None})
    return obj, value_of


@script(["C06", "C07"], "Assertion.mvrs_to_data/comparison (unbounded number of sampled cards)",
        variants=tuple((s, a) for s in ("style", "nostyle") for a in ("all", "thr", "default")), optional=True)
def mvrs_to_data_unbounded(S, I, variant):
    use_style = variant[0] == "style"
    use_all = variant[1] == "all"          # "default": the argument is omitted, as set_p_values does; the threshold filter applies
    c = ctx()
    N = S.integer("n_sampled", lo=0)
    u_a = S.real("u_a", lo=Fraction(1, 2))
    thr = S.real("sample_threshold")
    con = mk_contest(I, id="con", cards=S.integer("cards", lo=1), candidates=["A", "B"], winner=["A"],
                     audit_type="CARD_COMPARISON", use_style=use_style, sample_threshold=thr)
    mk = lambda pre: SymObjList(iterm(N), lambda i: sym_cvr(I, f"{pre}@{z3.simplify(zi(i))}", {"con": ["A", "B"]}))
    mvrs, cvrs = mk("mvr"), mk("cvr")
    means = SymMap("pool_mean", lo=0, hi=u_a)
    assorter, value_of = lazy_assorter(S, I, con, u_a, means)
    v = S.real("margin", lo_strict=0)
    c.assume(xcmp("<=", v, xsub(xmul(XR.const(2), u_a), ONE)))
    asn = Obj(I.get(MOD, "Assertion"), {"contest": con, "assorter": assorter, "margin": v, "winner": "A", "loser": "B"})
    fn = I.getattr(asn, "mvrs_to_data")
    r, exc = guard(S, I, lambda: I.call(fn, [mvrs, cvrs], {} if variant[1] == "default" else {"use_all": use_all}))
    if exc:
        return
    d, u = r
    if not isinstance(d, FilteredArr):
        raise NotApplicable("the data are not built as a filtered comprehension over the sampled positions")
    den = xsub(XR.const(2), xdiv_np(v, u_a))
    S.eq("u = 2/(2 - v/u_assorter)", u, xdiv_np(XR.const(2), den))
    S.holds("one candidate observation per sampled card, in order", icmp("==", d.length, N))
    i = z3.Int(c.fresh("pos"))
    c.assume(z3.And(i >= 0, i < zi(N)))
    cv, mv = cvrs.at(i), mvrs.at(i)
    value_of(mv), value_of(cv)        # (the interface values exist before the real code asks for them inside a merged evaluation)
    contributes = True if not use_style else band(has_contest(cv, "con"), True if use_all else xcmp("<=", cv.attrs["sample_num"], thr))
    S.holds("card i contributes exactly when (no style information, or) its CVR lists the contest and its sample number is within the threshold",
            biff(d.cond(i), contributes))
    if c.decide(contributes):
        val = d.elem(i)
        spec, at, ct = overst_spec(I, mv, cv, value_of(mv), value_of(cv), means, use_style)
        S.eq("value of a contributing card i = B(mvr_i, cvr_i)", val, xdiv_np(xsub(ONE, xdiv_np(spec, u_a)), den))
        S.holds("0 <= value <= u", band(xcmp(">=", val, ZERO), xcmp("<=", val, u)))


@script(["C06"], "Assertion.mvrs_to_data/polling (unbounded number of sampled cards)", optional=True)
def mvrs_to_data_polling_unbounded(S, I, variant):
    c = ctx()
    N = S.integer("n_sampled", lo=0)
    u_a = S.real("u_a", lo=Fraction(1, 2))
    con = mk_contest(I, id="con", cards=S.integer("cards", lo=1), candidates=["A", "B"], winner=["A"],
                     audit_type="POLLING", use_style=True, sample_threshold=S.real("sample_threshold"))
    mvrs = SymObjList(iterm(N), lambda i: sym_cvr(I, f"mvr@{z3.simplify(zi(i))}", {"con": ["A", "B"]}))
    assorter, value_of = lazy_assorter(S, I, con, u_a, SymMap("pool_mean", lo=0, hi=u_a))
    asn = Obj(I.get(MOD, "Assertion"), {"contest": con, "assorter": assorter, "margin": S.real("margin", lo_strict=0), "winner": "A", "loser": "B"})
    fn = I.getattr(asn, "mvrs_to_data")
    r, exc = guard(S, I, lambda: I.call(fn, [mvrs, None], {}))
    if exc:
        return
    d, u = r
    S.eq("u = assorter bound", u, u_a)
    from pyvc.npmodel import to_arr
    darr = to_arr(I, d)
    S.holds("one value per manual record", icmp("==", darr.length, N))
    i = z3.Int(c.fresh("pos"))
    c.assume(z3.And(i >= 0, i < zi(N)))
    mv = mvrs.at(i)
    S.eq("d[i] = assort(mvr_i)", darr.at(i), value_of(mv))
    S.holds("0 <= d[i] <= u", band(xcmp(">=", darr.at(i), ZERO), xcmp("<=", darr.at(i), u)))


# ------------------------------------------------------------------ C09 / C06: set_p_values, summarize_status with an UNBOUNDED number of assertions

class RecordLoopSummary:
    """`for key, rec in D.items(): body` over a SymObjDict D (symbolic number of entries) with one loop-carried accumulator.
    The REAL body is run at an arbitrary entry j under the invariant  accumulator = acc_at(D, j); obligations: the accumulator
    after the body equals acc_at(D, j+1), plus the caller's checks of the body's effect on entry j's record and on the dict-valued
    attributes of the owner object (one new item per entry).  After the loop: accumulator = acc_at(D, n); entry j's record and the
    owner's dict items are what the body produces at j (evaluated on demand at the index a reader asks for)."""

    def __init__(self, S, acc_at, check=None):
        self.S, self.acc_at, self.check = S, acc_at, check
        self.done = []

    @staticmethod
    def same_acc(I, a, b):
        if isinstance(a, (bool, SBool)) or isinstance(b, (bool, SBool)):
            return biff(bterm(mkbool(I.truth_term(a))), bterm(mkbool(I.truth_term(b))))
        return xsame(xr(I.norm_scalar(a)), xr(I.norm_scalar(b)))

    def run_for(self, I, st, env, in_class):
        import ast
        from pyvc.interp import Env
        S, c = self.S, ctx()
        view = I.eval(st.iter, env)
        if isinstance(view, SymObjDict):
            view = SymDictView(view, "keys")            # `for k in d` iterates the keys
        if not isinstance(view, SymDictView):
            raise NotApplicable("loop is not over a symbolic-size dict (items / values / keys)")
        d = view.d
        if view.kind == "items" and isinstance(st.target, ast.Tuple) and len(st.target.elts) == 2 and all(isinstance(t, ast.Name) for t in st.target.elts):
            kname, rname = st.target.elts[0].id, st.target.elts[1].id
        elif view.kind == "values" and isinstance(st.target, ast.Name):
            kname, rname = None, st.target.id
        elif view.kind == "keys" and isinstance(st.target, ast.Name):
            kname, rname = st.target.id, None
        else:
            raise NotApplicable("loop target does not match the dict view it iterates")
        assigned = set()
        for n in ast.walk(ast.Module(body=st.body, type_ignores=[])):
            if isinstance(n, (ast.Assign, ast.AugAssign)):
                for t in (n.targets if isinstance(n, ast.Assign) else [n.target]):
                    for nm in ast.walk(t):
                        if isinstance(nm, ast.Name) and isinstance(nm.ctx, ast.Store):
                            assigned.add(nm.id)
        carried = sorted(v for v in assigned if v in env.vars and v not in (kname, rname))
        if len(carried) > 1:
            raise NotApplicable("more than one loop-carried variable: " + ", ".join(carried))
        acc = carried[0] if carried else None
        # the object whose `.assertions` (or other attribute) is iterated: its dict-valued attributes may receive one item per entry
        owner = None
        base = st.iter
        if isinstance(base, ast.Call) and isinstance(base.func, ast.Attribute) and base.func.attr in ("items", "values", "keys"):
            base = base.func.value
        if isinstance(base, ast.Attribute):
            owner = I.eval(base.value, env)
        n = d.length
        if acc is not None:
            S.holds(f"[{self.tag(owner)}] accumulator on entry = its initial value", self.same_acc(I, env.vars[acc], self.acc_at(d, 0)))
        memo = {}
        base_rec = d._rec_of          # the records as they are when this loop starts (later summaries wrap them again)
        before_dicts = {a: dict(v) for a, v in owner.attrs.items() if isinstance(v, dict)} if isinstance(owner, Obj) else {}
        # the body is also run on demand after the loop (and after later iterations of enclosing loops): it must see the bindings
        # of THIS moment (e.g. the enclosing loop's `con`), so the local environment is frozen here
        frozen = Env(dict(env.vars), env.parent, env.module)
        frozen.fn_qual = getattr(env, "fn_qual", None)
        frozen.class_ns = getattr(env, "class_ns", False)

        def effect_at(j):
            j = zi(idx_term(j))
            k = tid(j)
            if k in memo:
                return memo[k]
            rec = base_rec(j)
            # scratch copies of the owner's dict attributes as they were when the loop started: the body's new items are read off
            # them, and whatever the attributes hold now (possibly the summarised tables) is put back afterwards
            current = {a: owner.attrs[a] for a in before_dicts} if isinstance(owner, Obj) else {}
            scratch = {a: dict(v) for a, v in before_dicts.items()}
            for a, v in scratch.items():
                owner.attrs[a] = v
            ev = {}
            if kname is not None:
                ev[kname] = d.key_at(j)
            if rname is not None:
                ev[rname] = rec
            if acc is not None:
                ev[acc] = self.acc_at(d, j)
            env2 = Env(ev, frozen, env.module)
            env2.fn_qual = getattr(env, "fn_qual", None)
            had = d._recs.get(k)
            d._recs[k] = rec
            try:
                run_loop_body(I, st, env2, in_class)
                entries = {}
                for a, v in scratch.items():
                    if owner.attrs.get(a) is not v:
                        raise NotApplicable("the body rebinds a dict attribute of the owner object")
                    entries[a] = {kk: vv for kk, vv in v.items() if kk not in before_dicts[a]}
            finally:
                if had is None:
                    d._recs.pop(k, None)
                else:
                    d._recs[k] = had
                for a, v in current.items():
                    owner.attrs[a] = v
            out = {"rec": rec, "entries": entries, "acc": env2.vars.get(acc) if acc is not None else None}
            memo[k] = out
            return out

        j0 = z3.Int(c.fresh("entry"))
        with c.scope():
            c.assume(z3.And(j0 >= 0, j0 < zi(n)))
            e0 = effect_at(j0)
            if acc is not None:
                S.holds(f"[{self.tag(owner)}] accumulator after the body at entry j = its invariant at j+1", self.same_acc(I, e0["acc"], self.acc_at(d, j0 + 1)))
            if self.check is not None:
                self.check(S, I, owner, d, j0, e0)
        memo.pop(tid(j0), None)
        # state after the loop
        if acc is not None:
            env.vars[acc] = self.acc_at(d, n)
        d.set_records(lambda j: effect_at(j)["rec"])
        if isinstance(owner, Obj):
            for a, v in before_dicts.items():
                if e0["entries"].get(a):
                    owner.attrs[a] = LazyEntries(d, (lambda a: (lambda j: effect_at(j)["entries"][a][d.key_at(j)]))(a), before=dict(v))
        self.done.append((owner, d))

    @staticmethod
    def tag(owner):
        return owner.attrs.get("id", "?") if isinstance(owner, Obj) else "?"


def assertion_collection(S, I, con, cid, rl):
    """a contest's assertions as a dict of symbolic size: assertion j has data D_j and bound U_j (its mvrs_to_data, abstracted),
    a test that returns (P_j, H_j) with P_j in [0,1] (the C11 interface) and records the bound it held when called, an old
    p-value and an old proved flag"""
    c = ctx()
    Asn = I.get(MOD, "Assertion")
    NM = I.get("shangrla.core.NonnegMean", "NonnegMean")
    NA = S.integer(f"n_assertions_{cid}", lo=0)
    P = z3.Function(f"p_{cid}", z3.IntSort(), z3.RealSort())
    U = z3.Function(f"u_{cid}", z3.IntSort(), z3.RealSort())
    STALE = z3.Function(f"stale_u_{cid}", z3.IntSort(), z3.RealSort())
    OLDPROVED = z3.Function(f"old_proved_{cid}", z3.IntSort(), z3.BoolSort())
    tokens = {}

    def token(kind, j):
        k = (kind, tid(zi(j)))
        if k not in tokens:
            tokens[k] = FStr([kind, cid, SInt(zi(j))])
        return tokens[k]

    log = []

    def p_of(j):
        v = XR(P(zi(j)), npk=True)
        c.assume(z3.And(P(zi(j)) >= 0, P(zi(j)) <= 1), definitional=True)
        return v

    def make(j):
        j = zi(j)
        testobj = Obj(NM, {"u": XR(STALE(j))})

        def test(I_, a, k, j=j, testobj=testobj):
            log.append((j, a[0] if a else k.get("x"), testobj.attrs["u"]))
            return (p_of(j), token("history", j))

        testobj.attrs["test"] = Builtin("abstract_test", test)
        asn = Obj(Asn, {"contest": con.get("con") if isinstance(con, dict) else con, "test": testobj,
                        "p_value": XR.finvar(c.fresh("old_p"), npk=True), "p_history": [],
                        "proved": mkbool(OLDPROVED(j)), "winner": "A", "loser": "B", "margin": XR.const(Fraction(1, 10))})
        asn.attrs["mvrs_to_data"] = Builtin("abstract_mvrs_to_data", lambda I_, a, k, j=j: (token("data", j), XR(U(j))))
        return asn

    d = SymObjDict(iterm(NA), lambda j: token("assertion", j), make)
    spec = {"NA": NA, "P": P, "U": U, "OLDPROVED": OLDPROVED, "token": token, "log": log, "p_of": p_of, "rl": rl,
            "RM": SymArr(iterm(NA), lambda j: p_of(j), "xr").fold("max0"), "make": make,
            "fresh": lambda: SymObjDict(iterm(NA), lambda j: token("assertion", j), make)}
    return d, spec


def running_max_lemmas(S, spec, tagname):
    """RM(n) = max(0, P_0 .. P_{n-1}) as the running maximum: every P_j <= RM(n) (induction), hence RM(n) <= r iff every P_j <= r
    for r >= 0; and RM(n) is 0 or one of the P_j (witness by induction)."""
    c = ctx()
    NA, RM, p_of = spec["NA"], spec["RM"], spec["p_of"]
    j = z3.Int(c.fresh("jmax"))
    c.assume(z3.And(j >= 0, j < zi(iterm(NA))))
    ub = S.induction(f"[{tagname}] P_j <= running maximum from j+1 on",
                     lambda dd: bimp(icmp("<=", iadd(iadd(j, 1), dd), NA), xcmp("<=", p_of(j), RM.at(iadd(iadd(j, 1), dd)))), lo=0)
    nn = S.induction(f"[{tagname}] running maximum >= 0 and not NaN", lambda k: bimp(icmp("<=", k, NA), band(xcmp(">=", RM.at(k), ZERO), bnot(RM.at(k).nan) if not isinstance(RM.at(k).nan, bool) else not RM.at(k).nan)), lo=0)
    return j, ub, nn


def running_max_attained(S, spec, tagname):
    """RM(n) is 0 (no larger p-value) or equals P_w for a position w < n: by induction with the explicit witness function
    W(0) = -1, W(k+1) = k if P_k >= RM(k) else W(k)  (a definition by recursion: its instances are assumed where used)."""
    c = ctx()
    NA, RM, p_of = spec["NA"], spec["RM"], spec["p_of"]
    W = z3.Function(c.fresh("argmax_" + tagname), z3.IntSort(), z3.IntSort())

    def defn(k):
        k = zi(k)
        c.assume(W(z3.IntVal(0)) == -1, definitional=True)
        c.assume(z3.Implies(k >= 0, W(k + 1) == z3.If(zb(xcmp(">=", p_of(k), RM.at(k))), k, W(k))), definitional=True)

    def claim(k):
        k = zi(k)
        defn(k)
        return bimp(icmp("<=", k, NA), bor(band(W(k) == -1, xsame(RM.at(k), ZERO)),
                                          band(W(k) >= 0, W(k) < k, xsame(RM.at(k), p_of(W(k))))))

    inst = S.induction(f"[{tagname}] the running maximum is 0 or attained at a witness position", claim, lo=0)
    return W, inst


@script(["C09", "C06", "C10"], "Assertion.set_p_values/post (unbounded number of assertions per contest; 2 contests)", optional=True)
def set_p_values_unbounded(S, I, variant):
    c = ctx()
    contests, specs = {}, {}
    for cid in ("c0", "c1"):
        rl = S.real(f"risk_limit_{cid}", lo_strict=0, hi=Fraction(1, 2))
        con = mk_contest(I, id=cid, risk_limit=rl, cards=10, candidates=["A", "B"], winner=["A"])
        d, spec = assertion_collection(S, I, con, cid, rl)
        con.attrs["assertions"] = d
        contests[cid], specs[cid] = con, spec
    by_dict = {id(contests[cid].attrs["assertions"]): cid for cid in contests}

    def check(S_, I_, owner, d, j0, e0):
        cid = by_dict[id(d)]
        sp = specs[cid]
        rec = e0["rec"]
        mine = [t for t in sp["log"] if t[0].eq(zi(j0))]
        once = len(mine) == 1 and mine[0][1] is sp["token"]("data", j0)
        S_.holds(f"[{cid}] the test of assertion j is run once, on that assertion's data, holding the bound returned with the data",
                 band(once, xsame(xr(mine[0][2]), XR(sp["U"](zi(j0))))) if once else False)
        S_.holds(f"[{cid}] assertion j records exactly the p-value and history its test returned; the bound stays installed",
                 band(xsame(xr(rec.attrs["p_value"]), sp["p_of"](j0)), rec.attrs["p_history"] is sp["token"]("history", j0),
                      xsame(xr(rec.attrs["test"].attrs["u"]), XR(sp["U"](zi(j0))))))
        S_.holds(f"[{cid}] proved = (p <= the contest's own risk limit) or proved before",
                 biff(bterm(mkbool(I_.truth_term(rec.attrs["proved"]))), bor(xcmp("<=", sp["p_of"](j0), sp["rl"]), sp["OLDPROVED"](zi(j0)))))
        key = d.key_at(j0)
        ent = e0["entries"]
        S_.holds(f"[{cid}] the contest's p_values / proved tables get exactly this assertion's entry",
                 set(ent.get("p_values", {}).keys()) == {key} and set(ent.get("proved", {}).keys()) == {key}
                 and band(xsame(xr(ent["p_values"][key]), sp["p_of"](j0)),
                          biff(bterm(mkbool(I_.truth_term(ent["proved"][key]))), bterm(mkbool(I_.truth_term(rec.attrs["proved"]))))))

    summ = RecordLoopSummary(S, lambda d, j: specs[by_dict[id(d)]]["RM"].at(j), check)
    import ast as _ast
    I.loop_matchers["Assertion.set_p_values"] = [
        (_is_items_loop_over("assertions"), summ)]
    fn = I.get(MOD, "Assertion.set_p_values")
    mv = [sym_cvr(I, "mvr0", {"c0": ["A", "B"]})]
    r, exc = guard(S, I, lambda: I.call(fn, [], {"contests": contests, "mvr_sample": mv, "cvr_sample": list(mv)}))
    if exc:
        return
    if len(summ.done) != 2:
        raise NotApplicable("the loop over a contest's assertions was not recognised")
    for cid, con in contests.items():
        sp = specs[cid]
        S.eq(f"[{cid}] the contest's measured risk = running maximum of its assertions' p-values (0 if it has none)",
             xr(I.norm_scalar(con.attrs["max_p"])), sp["RM"].at(iterm(sp["NA"])))
        j, ub, nn = running_max_lemmas(S, sp, cid)
        if ub(isub(isub(sp["NA"], j), 1)) and nn(iterm(sp["NA"])):
            S.holds(f"[{cid}] every assertion's p-value is at most the contest's measured risk", xcmp("<=", sp["p_of"](j), xr(I.norm_scalar(con.attrs["max_p"]))))
        else:
            S.undecided(f"[{cid}] every assertion's p-value is at most the contest's measured risk")
    m0, m1 = (xr(I.norm_scalar(contests[k].attrs["max_p"])) for k in ("c0", "c1"))
    S.eq("returned value = the largest measured risk among the contests (0 if none)", xr(I.norm_scalar(r)), xmaximum(xmaximum(ZERO.asnp() if hasattr(ZERO, "asnp") else ZERO, m0), m1))


@script(["C09"], "Audit.summarize_status/post (unbounded number of assertions per contest; 2 contests)", optional=True)
def summarize_status_unbounded(S, I, variant):
    c = ctx()
    contests, specs = {}, {}
    for cid in ("c0", "c1"):
        rl = S.real(f"risk_limit_{cid}", lo_strict=0, hi=Fraction(1, 2))
        con = mk_contest(I, id=cid, risk_limit=rl, cards=10, candidates=["A", "B"], winner=["A"])
        d, spec = assertion_collection(S, I, con, cid, rl)
        base_make = d._rec_of

        def with_p(j, base_make=base_make, spec=spec):
            a = base_make(j)
            a.attrs["p_value"] = spec["p_of"](j)        # the p-values as set_p_values leaves them
            return a

        d.set_records(with_p)
        con.attrs["assertions"] = d
        contests[cid], specs[cid] = con, spec
    by_dict = {id(contests[cid].attrs["assertions"]): cid for cid in contests}
    summ = RecordLoopSummary(S, lambda d, j: specs[by_dict[id(d)]]["RM"].at(j), None)
    import ast as _ast
    I.loop_matchers["Audit.summarize_status"] = [
        (_is_items_loop_over("assertions"), summ)]
    audit = Obj(I.get(MOD, "Audit"), {})
    fn = I.getattr(audit, "summarize_status")
    r, exc = guard(S, I, lambda: I.call(fn, [contests], {}))
    if exc:
        return
    if not summ.done:
        raise NotApplicable("the loop over a contest's assertions was not recognised")
    done = bterm(mkbool(I.truth_term(r)))
    complete = {}
    for cid in contests:
        sp = specs[cid]
        complete[cid] = xcmp("<=", sp["RM"].at(iterm(sp["NA"])), sp["rl"])
    S.holds("reported complete exactly when every contest's measured risk (running maximum of its p-values) is at most its own limit",
            biff(done, band(*complete.values())))
    for cid in contests:
        sp = specs[cid]
        j, ub, nn = running_max_lemmas(S, sp, cid)
        W, att = running_max_attained(S, sp, cid)
        if ub(isub(isub(sp["NA"], j), 1)) and nn(iterm(sp["NA"])) and att(iterm(sp["NA"])):
            S.holds(f"[{cid}] complete => every assertion of the contest has p <= the contest's limit", bimp(done, xcmp("<=", sp["p_of"](j), sp["rl"])))
            w = W(zi(iterm(sp["NA"])))
            S.holds(f"[{cid}] contest not within its limit => some assertion of it has p > the limit (witness position)",
                    bimp(bnot(complete[cid]), band(w >= 0, w < zi(iterm(sp["NA"])), xcmp(">", sp["p_of"](w), sp["rl"]))))
        else:
            S.undecided(f"[{cid}] complete iff every assertion meets the limit")


@script(["C09"], "Assertion.reset_p_values/post (unbounded number of assertions per contest; 2 contests)", optional=True)
def reset_p_values_unbounded(S, I, variant):
    c = ctx()
    contests, specs = {}, {}
    for cid in ("c0", "c1"):
        rl = S.real(f"risk_limit_{cid}", lo_strict=0, hi=Fraction(1, 2))
        con = mk_contest(I, id=cid, risk_limit=rl, cards=10, candidates=["A", "B"], winner=["A"])
        d, spec = assertion_collection(S, I, con, cid, rl)
        con.attrs["assertions"] = d
        con.attrs["max_p"] = XR.finvar(c.fresh("old_max_p"))
        contests[cid], specs[cid] = con, spec
    by_dict = {id(contests[cid].attrs["assertions"]): cid for cid in contests}

    def check(S_, I_, owner, d, j0, e0):
        cid = by_dict[id(d)]
        rec = e0["rec"]
        key = d.key_at(j0)
        ent = e0["entries"]
        S_.holds(f"[{cid}] assertion j: p-value 1, empty history, unconfirmed",
                 band(bterm(I_.equal(rec.attrs["p_value"], 1)), rec.attrs["p_history"] == [], I_.truth_term(rec.attrs["proved"]) is False))
        S_.holds(f"[{cid}] the contest's tables get exactly this assertion's reset entry",
                 set(ent.get("p_values", {}).keys()) == {key} and set(ent.get("proved", {}).keys()) == {key}
                 and band(bterm(I_.equal(ent["p_values"][key], 1)), I_.truth_term(ent["proved"][key]) is False))

    summ = RecordLoopSummary(S, None, check)
    import ast as _ast
    I.loop_matchers["Assertion.reset_p_values"] = [
        (_is_items_loop_over("assertions"), summ)]
    fn = I.get(MOD, "Assertion.reset_p_values")
    r, exc = guard(S, I, lambda: I.call(fn, [], {"contests": contests}))
    if exc:
        return
    if len(summ.done) != 2:
        raise NotApplicable("the loop over a contest's assertions was not recognised")
    for cid, con in contests.items():
        S.holds(f"[{cid}] the contest's measured risk is reset to 1", bterm(I.equal(con.attrs["max_p"], 1)))
        j = z3.Int(c.fresh("jr"))
        with c.scope():
            c.assume(z3.And(j >= 0, j < zi(iterm(specs[cid]["NA"]))))
            a = con.attrs["assertions"].rec_at(j)
            S.holds(f"[{cid}] after the call every assertion j reads: p-value 1, empty history, unconfirmed",
                    band(bterm(I.equal(a.attrs["p_value"], 1)), a.attrs["p_history"] == [], I.truth_term(a.attrs["proved"]) is False))


# ------------------------------------------------------------------ C09: symbolic number of CONTESTS and of assertions per contest

def contest_collection(S, I, with_p=False):
    """a dict of contests of symbolic size; contest ci has its own risk limit and its own symbolic-size dict of assertions"""
    c = ctx()
    NC = S.integer("n_contests", lo=0)
    RL = z3.Function("risk_limit", z3.IntSort(), z3.RealSort())
    keys, specs = {}, {}

    def key_of(ci):
        k = tid(zi(ci))
        if k not in keys:
            keys[k] = FStr(["contest", SInt(zi(ci))])
        return keys[k]

    def spec_for(ci):
        """the specification functions of contest ci (created once per index term, independent of any record object)"""
        ci = zi(ci)
        if tid(ci) not in specs:
            c.assume(z3.And(RL(ci) > 0, RL(ci) <= Fraction(1, 2)), definitional=True)
            holder = {}
            cid = f"c@{z3.simplify(ci)}"
            _, spec = assertion_collection(S, I, holder, cid, XR(RL(ci)))
            spec["con_holder"], spec["cid"] = holder, cid
            specs[tid(ci)] = (None, spec)
        return specs[tid(ci)][1]

    def make(ci):
        ci = zi(ci)
        spec = spec_for(ci)
        con = mk_contest(I, id=spec["cid"], risk_limit=spec["rl"], cards=10, candidates=["A", "B"], winner=["A"])
        d = spec["fresh"]()
        spec["con_holder"]["con"] = con
        if with_p:
            base_make = d._rec_of

            def rec_with_p(j, base_make=base_make, spec=spec):
                a = base_make(j)
                a.attrs["p_value"] = spec["p_of"](j)
                return a
            d.set_records(rec_with_p)
        d.spec = spec
        con.attrs["assertions"] = d
        con.attrs["max_p"] = XR.finvar(c.fresh("old_max_p"))
        return con

    D = SymObjDict(iterm(NC), key_of, make)
    return NC, D, spec_for


def _is_items_loop_over(attr):
    """a `for` loop over d.items() / d.values() / d.keys() / d itself, where d is `<expr>.<attr>` (attr given) or a plain name"""
    import ast as _ast

    def pred(st):
        if not isinstance(st, _ast.For):
            return False
        base = st.iter
        if isinstance(base, _ast.Call) and isinstance(base.func, _ast.Attribute) and base.func.attr in ("items", "values", "keys") and not base.args:
            base = base.func.value
        if attr is None:
            return isinstance(base, _ast.Name) and base.id in ("contests", "con_dict")
        return isinstance(base, _ast.Attribute) and base.attr == attr
    return pred


@script(["C09", "C06", "C10"], "Assertion.set_p_values/post (unbounded numbers of contests and of assertions per contest)", optional=True)
def set_p_values_unbounded2(S, I, variant):
    c = ctx()
    NC, D, spec_for = contest_collection(S, I)
    contest_max = lambda ci: spec_for(idx_term(ci))["RM"].at(iterm(spec_for(idx_term(ci))["NA"]))
    OUT = SymArr(iterm(NC), contest_max, "xr").fold("max0")

    def inner_check(S_, I_, owner, d, j0, e0):
        sp = d.spec
        rec = e0["rec"]
        mine = [t for t in sp["log"] if t[0].eq(zi(j0))]
        once = len(mine) == 1 and mine[0][1] is sp["token"]("data", j0)
        S_.holds("the test of assertion j of contest i is run once, on that assertion's data, holding the bound returned with the data",
                 band(once, xsame(xr(mine[0][2]), XR(sp["U"](zi(j0))))) if once else False)
        S_.holds("assertion j records exactly the p-value and history its test returned; proved = (p <= its contest's limit) or proved before",
                 band(xsame(xr(rec.attrs["p_value"]), sp["p_of"](j0)), rec.attrs["p_history"] is sp["token"]("history", j0),
                      biff(bterm(mkbool(I_.truth_term(rec.attrs["proved"]))), bor(xcmp("<=", sp["p_of"](j0), sp["rl"]), sp["OLDPROVED"](zi(j0))))))
        key = d.key_at(j0)
        ent = e0["entries"]
        S_.holds("the contest's p_values / proved tables get exactly this assertion's entry",
                 set(ent.get("p_values", {}).keys()) == {key} and set(ent.get("proved", {}).keys()) == {key}
                 and band(xsame(xr(ent["p_values"][key]), sp["p_of"](j0))))

    def outer_check(S_, I_, owner, d, i0, e0):
        con = e0["rec"]
        S_.holds("contest i's measured risk = running maximum of its assertions' p-values",
                 xsame(xr(I_.norm_scalar(con.attrs["max_p"])), contest_max(i0)))

    inner = RecordLoopSummary(S, lambda d, j: d.spec["RM"].at(j), inner_check)
    outer = RecordLoopSummary(S, lambda d, i: OUT.at(i), outer_check)
    I.loop_matchers["Assertion.set_p_values"] = [(_is_items_loop_over("assertions"), inner), (_is_items_loop_over(None), outer)]
    fn = I.get(MOD, "Assertion.set_p_values")
    mv = [sym_cvr(I, "mvr0", {"c0": ["A", "B"]})]
    r, exc = guard(S, I, lambda: I.call(fn, [], {"contests": D, "mvr_sample": mv, "cvr_sample": list(mv)}))
    if exc:
        return
    if not outer.done:
        raise NotApplicable("the loop over the contests was not recognised")
    S.holds("returned value = running maximum over the contests of their measured risks (0 if there is none)", xsame(xr(I.norm_scalar(r)), OUT.at(iterm(NC))))


@script(["C09"], "Audit.summarize_status/post (unbounded numbers of contests and of assertions per contest)", optional=True)
def summarize_status_unbounded2(S, I, variant):
    c = ctx()
    NC, D, spec_for = contest_collection(S, I, with_p=True)
    spec_of = lambda ci: spec_for(idx_term(ci))

    contest_max = lambda ci: spec_of(ci)["RM"].at(iterm(spec_of(ci)["NA"]))
    incomplete = lambda ci: xcmp(">", contest_max(ci), spec_of(ci)["rl"])
    CNT = SymArr(iterm(NC), lambda ci: mkint(iite(incomplete(ci), 1, 0)), "int").fold("+")     # number of contests not within their limit
    pos = S.induction("the count of incomplete contests is >= 0", lambda k: bimp(icmp("<=", k, NC), icmp(">=", CNT.at(k), 0)), lo=0)

    def done_at(d, i):
        pos(i)              # (lemma instance: the count so far is >= 0)
        return mkbool(icmp("==", CNT.at(i), 0))

    inner = RecordLoopSummary(S, lambda d, j: d.spec["RM"].at(j), None)
    outer = RecordLoopSummary(S, done_at, None)
    I.loop_matchers["Audit.summarize_status"] = [(_is_items_loop_over("assertions"), inner), (_is_items_loop_over(None), outer)]
    audit = Obj(I.get(MOD, "Audit"), {})
    r, exc = guard(S, I, lambda: I.call(I.getattr(audit, "summarize_status"), [D], {}))
    if exc:
        return
    if not outer.done:
        raise NotApplicable("the loop over the contests was not recognised")
    done = bterm(mkbool(I.truth_term(r)))
    S.holds("reported complete exactly when no contest's measured risk exceeds its own limit", biff(done, icmp("==", CNT.at(iterm(NC)), 0)))
    # from the count to the quantified statement: a count of 0 means no contest is incomplete (induction), and for a contest the
    # measured risk is within the limit iff all its assertions are (running-maximum lemmas)
    i = z3.Int(c.fresh("ci"))
    c.assume(z3.And(i >= 0, i < zi(iterm(NC))))
    nonneg = S.induction("the count of incomplete contests never decreases", lambda dd: bimp(icmp("<=", iadd(iadd(i, 1), dd), NC), icmp(">=", CNT.at(iadd(iadd(i, 1), dd)), CNT.at(iadd(i, 1)))), lo=0)
    sp = spec_of(i)
    j, ub, nn = running_max_lemmas(S, sp, "contest i")
    W, att = running_max_attained(S, sp, "contest i")
    if nonneg(isub(isub(NC, i), 1)) and pos(i) and ub(isub(isub(sp["NA"], j), 1)) and nn(iterm(sp["NA"])) and att(iterm(sp["NA"])):
        S.holds("complete => every assertion j of every contest i has p <= contest i's limit", bimp(done, xcmp("<=", sp["p_of"](j), sp["rl"])))
        w = W(zi(iterm(sp["NA"])))
        S.holds("contest i not within its limit => not complete, and some assertion of contest i has p > the limit (witness)",
                bimp(incomplete(i), band(bnot(done), w >= 0, w < zi(iterm(sp["NA"])), xcmp(">", sp["p_of"](w), sp["rl"]))))
    else:
        S.undecided("complete iff every assertion of every contest meets its contest's limit")


# ------------------------------------------------------------------ C16: Audit.find_sample_size, a contest's estimate = largest among its assertions (unbounded)

@script(["C16"], "Audit.find_sample_size/contest estimate = largest estimate among its unconfirmed assertions (unbounded number of assertions)",
        variants=(("with_sample",),), optional=True)
def audit_find_sample_size_unbounded(S, I, variant):
    c = ctx()
    Asn = I.get(MOD, "Assertion")
    contests, specs = {}, {}
    for cid in ("c0", "c1"):
        con = mk_contest(I, id=cid, risk_limit=XR.const(Fraction(1, 20)), cards=100, candidates=["A", "B"], winner=["A"], audit_type="CARD_COMPARISON")
        NA = S.integer(f"n_assertions_{cid}", lo=0)
        EST = z3.Function(f"estimate_{cid}", z3.IntSort(), z3.IntSort())
        PROVED = z3.Function(f"proved_{cid}", z3.IntSort(), z3.BoolSort())
        keys = {}

        def key_of(j, cid=cid, keys=keys):
            k = tid(zi(j))
            if k not in keys:
                keys[k] = FStr(["assertion", cid, SInt(zi(j))])
            return keys[k]

        def make(j, con=con, EST=EST, PROVED=PROVED):
            j = zi(j)
            c.assume(EST(j) >= 0, definitional=True)
            asn = Obj(Asn, {"contest": con, "proved": mkbool(PROVED(j)), "winner": "A", "loser": "B", "margin": XR.const(Fraction(1, 10))})
            asn.attrs["find_sample_size"] = Builtin("abstract_find_sample_size", lambda I_, a, k, j=j: SInt(EST(j)))
            asn.attrs["mvrs_to_data"] = Builtin("abstract_mvrs_to_data", lambda I_, a, k: (None, XR.const(1)))
            return asn

        d = SymObjDict(iterm(NA), key_of, make)
        d.spec = {"NA": NA, "RMX": SymArr(iterm(NA), (lambda EST, PROVED: (lambda j: mkint(iite(PROVED(zi(j)), 0, iterm(SInt(EST(zi(j))))))))(EST, PROVED), "int").fold("max0")}
        con.attrs["assertions"] = d
        d.spec["pos"] = S.induction(f"[{cid}] the running largest estimate is >= 0",
                                    (lambda d, NA: (lambda k: bimp(icmp("<=", k, NA), icmp(">=", d.spec["RMX"].at(k), 0))))(d, NA), lo=0)
        contests[cid], specs[cid] = con, d.spec

    def rmx_at(d, j):
        d.spec["pos"](j)
        return d.spec["RMX"].at(j)

    inner = RecordLoopSummary(S, rmx_at, None)
    I.loop_matchers["Audit.find_sample_size"] = [(_is_items_loop_over("assertions"), inner)]
    stratum = Obj(I.get(MOD, "Stratum"), {"use_style": False, "max_cards": 100})
    audit = Obj(I.get(MOD, "Audit"), {"strata": {"s": stratum}, "reps": None, "quantile": XR.const(Fraction(1, 2)), "sim_seed": 1,
                                      "error_rate_1": XR.const(0), "error_rate_2": XR.const(0)})
    mv = [sym_cvr(I, "mvr0", {"c0": ["A", "B"]})] if variant[0] == "with_sample" else None
    r, exc = guard(S, I, lambda: I.call(I.getattr(audit, "find_sample_size"), [], {"contests": contests, "cvrs": None, "mvr_sample": mv,
                                                                                     "cvr_sample": (list(mv) if mv else None)}))
    if exc:
        return
    if len(inner.done) != 2:
        raise NotApplicable("the loop over a contest's assertions was not recognised")
    for cid, con in contests.items():
        sp = specs[cid]
        S.holds(f"[{cid}] the contest's estimate = the largest estimate among its unconfirmed assertions (0 if it has none)",
                icmp("==", con.attrs["sample_size"], sp["RMX"].at(iterm(sp["NA"]))))
    m0, m1 = (specs[k]["RMX"].at(iterm(specs[k]["NA"])) for k in ("c0", "c1"))
    S.holds("without style information the audit's estimate is the largest contest estimate",
            icmp("==", r, iite(icmp(">=", m0, m1), iterm(m0), iterm(m1))))


@script(["C16"], "Contest.find_sample_size/post (bounded: 0-3 assertions; symbolic estimates)", variants=(("n0",), ("n1",), ("n2",), ("n3",)))
def contest_find_sample_size_post(S, I, variant):
    """a contest's estimate is the largest among its assertions' estimates (0 without assertions); every assertion is asked with the
    audit's simulation settings and, when a sample is supplied, with its own data"""
    n = int(variant[0][1:])
    c = ctx()
    Asn = I.get(MOD, "Assertion")
    con = mk_contest(I, id="con", risk_limit=XR.const(Fraction(1, 20)), cards=100, candidates=["A", "B"], winner=["A"], audit_type="CARD_COMPARISON")
    est = [S.integer(f"estimate_{j}", lo=0) for j in range(n)]
    calls = []
    tokens = [FStr(["data", SInt(z3.IntVal(j))]) for j in range(n)]
    asns = {}
    for j in range(n):
        a = Obj(Asn, {"contest": con, "proved": False, "winner": "A", "loser": "B", "margin": XR.const(Fraction(1, 10))})
        a.attrs["find_sample_size"] = Builtin("abstract_find_sample_size", (lambda j: (lambda I_, a_, k: (calls.append((j, dict(k), list(a_))), est[j])[1]))(j))
        a.attrs["mvrs_to_data"] = Builtin("abstract_mvrs_to_data", (lambda j: (lambda I_, a_, k: (tokens[j], XR.const(1))))(j))
        asns[f"a{j}"] = a
    con.attrs["assertions"] = asns
    audit = Obj(I.get(MOD, "Audit"), {"reps": S.choose("reps", [None, 5]), "quantile": S.real("quantile", lo_strict=0, hi_strict=1),
                                      "sim_seed": S.integer("seed", lo=0), "error_rate_1": S.real("rate_1", lo=0, hi=1),
                                      "error_rate_2": S.real("rate_2", lo=0, hi=1)})
    with_sample = S.choose("sample_supplied", [True, False])
    mv = [sym_cvr(I, "mvr0", {"con": ["A", "B"]})] if with_sample else None
    r, exc = guard(S, I, lambda: I.call(I.getattr(con, "find_sample_size"), [], {"audit": audit, "mvr_sample": mv, "cvr_sample": (list(mv) if mv else None)}))
    if exc:
        return
    best = 0
    for j in range(n):
        best = mkint(iite(icmp(">", est[j], best), iterm(est[j]), iterm(best)))
    S.holds("the contest's estimate = the largest estimate among its assertions (0 if it has none), returned and recorded",
            band(icmp("==", r, best), icmp("==", con.attrs["sample_size"], best)))
    S.holds("every assertion is asked exactly once", sorted(j for j, _, _ in calls) == list(range(n)))
    for j, kw, pos in calls:
        S.holds(f"[a{j}] asked with the audit's rates, repetitions, quantile and seed, and with its own data when a sample is supplied",
                not pos and kw.get("rate_1") is audit.attrs["error_rate_1"] and kw.get("rate_2") is audit.attrs["error_rate_2"]
                and kw.get("reps") is audit.attrs["reps"] and kw.get("quantile") is audit.attrs["quantile"] and kw.get("seed") is audit.attrs["sim_seed"]
                and (kw.get("data") is tokens[j] if with_sample else kw.get("data") is None))


# ------------------------------------------------------------------ C02 / C06: the functions that build and configure all assertions of an audit

@script(["C02"], "Assertion.make_all_assertions/post (plurality with k winners, super-majority)", variants=(("plurality",), ("supermajority",)))
def make_all_assertions_post(S, I, variant):
    """one assertion per (reported winner, reported loser) pair -- losers are exactly the candidates that are not winners -- each
    with the winner-versus-loser assorter; a super-majority contest gets its single assertion"""
    plur = variant[0] == "plurality"
    cands = ["A", "B", "C", "D"]
    if plur:
        winners = S.choose("winners", [["A"], ["A", "B"], ["C", "A", "B"]])
        con = mk_contest(I, id="con", name="con", cards=S.integer("cards", lo=1), candidates=cands, winner=list(winners), n_winners=len(winners),
                         choice_function="PLURALITY", test=I.get("shangrla.core.NonnegMean", "NonnegMean.alpha_mart"))
    else:
        winners = ["A"]
        f = S.real("share_to_win", lo_strict=0, hi_strict=1)
        con = mk_contest(I, id="con", name="con", cards=S.integer("cards", lo=1), candidates=cands, winner=["A"], share_to_win=f,
                         choice_function="SUPERMAJORITY", test=I.get("shangrla.core.NonnegMean", "NonnegMean.alpha_mart"))
    fn = I.get(MOD, "Assertion.make_all_assertions")
    _, exc = guard(S, I, lambda: I.call(fn, [{"key of con": con}], {}))
    if exc:
        return
    asns = con.attrs.get("assertions")
    losers = [x for x in cands if x not in winners]
    if plur:
        want = {f"{w} v {l}" for w in winners for l in losers}
        S.holds("exactly one assertion per (winner, loser) pair; winners are never losers", isinstance(asns, dict) and set(asns.keys()) == want)
        if not isinstance(asns, dict) or set(asns.keys()) != want:
            return
        tests = [a_.attrs.get("test") for a_ in asns.values()]
        S.holds("every assertion has a test object of its own (its bound is installed per assertion)",
                all(t_ is not None for t_ in tests) and len({id(t_) for t_ in tests}) == len(tests))
        card = rec_card(S, "card", sym_cvr(I, "card", {"con": cands}))
        for w in winners:
            for l in losers:
                a = asns[f"{w} v {l}"].attrs["assorter"]
                v, exc = guard(S, I, lambda: I.call(a.attrs["assort"], [card], {}))
                if exc:
                    return
                S.eq(f"[{w} v {l}] assort(card) = (w - l + 1)/2",
                     v, xdiv_np(xadd(xsub(b2x(card_vote(card, "con", w)), b2x(card_vote(card, "con", l))), ONE), XR.const(2)))
    else:
        S.holds("the super-majority contest gets its one assertion", isinstance(asns, dict) and set(asns.keys()) == {"A v ALL_OTHERS"})
        if isinstance(asns, dict) and "A v ALL_OTHERS" in asns:
            S.eq("its bound is 1/(2 share_to_win)", asns["A v ALL_OTHERS"].attrs["assorter"].attrs["upper_bound"], xdiv_np(ONE, xmul(XR.const(2), f)))


@script(["C06", "C02"], "Assertion.set_all_margins_from_cvrs/post (bounded: 2 contests x 2 assertions; symbolic margins and bounds)")
def set_all_margins_post(S, I, variant):
    """every assertion gets its own margin and its test the bound that goes with THAT margin: the assorter's bound for polling,
    2/(2 - v/u_assorter) for comparison audits; the smallest margin is returned"""
    c = ctx()
    Asn = I.get(MOD, "Assertion")
    NM = I.get("shangrla.core.NonnegMean", "NonnegMean")
    contests, specs = {}, []
    for ci in range(2):
        atype = S.choose(f"audit_type_{ci}", ["POLLING", "CARD_COMPARISON", "ONEAUDIT"])
        con = mk_contest(I, id=f"c{ci}", cards=10, candidates=["A", "B"], winner=["A"], audit_type=atype)
        asns = {}
        for ai in range(2):
            u_a = S.real(f"u_assorter_{ci}{ai}", lo=Fraction(1, 2))
            v = S.real(f"margin_{ci}{ai}", lo_strict=0)
            c.assume(xcmp("<=", v, xsub(xmul(XR.const(2), u_a), ONE)))
            assorter = abstract_assorter(S, I, con, u_a, [])
            testobj = Obj(NM, {"u": S.real(f"stale_u_{ci}{ai}", lo_strict=0)})
            asn = Obj(Asn, {"contest": con, "assorter": assorter, "test": testobj, "margin": S.real(f"old_margin_{ci}{ai}"), "winner": "A", "loser": "B"})
            asn.attrs["set_margin_from_cvrs"] = Builtin("abstract_set_margin", (lambda asn, v: (lambda I_, a_, k: asn.attrs.__setitem__("margin", v)))(asn, v))
            asns[f"a{ai}"] = asn
            specs.append((con, asn, u_a, v, atype))
        con.attrs["assertions"] = asns
        contests[f"key of c{ci}"] = con
    audit = Obj(I.get(MOD, "Audit"), {})
    r, exc = guard(S, I, lambda: I.call(I.get(MOD, "Assertion.set_all_margins_from_cvrs"), [], {"audit": audit, "contests": contests, "cvr_list": []}))
    if exc:
        return
    mn = None
    for con, asn, u_a, v, atype in specs:
        exp_u = u_a if atype == "POLLING" else xdiv_np(XR.const(2), xsub(XR.const(2), xdiv_np(v, u_a)))
        S.eq(f"[{con.attrs['id']}] the test's bound goes with the assertion's own margin", xr(asn.attrs["test"].attrs["u"]), exp_u)
        mn = v if mn is None else xmin_py(mn, v) if False else xite(xcmp("<", v, mn), v, mn)
    for ci in range(2):
        con = contests[f"key of c{ci}"]
        m = con.attrs.get("margins")
        S.holds(f"[c{ci}] the contest's table of margins holds each assertion's margin",
                isinstance(m, dict) and set(m.keys()) == {"a0", "a1"} and
                band(*[xsame(xr(m[k]), xr(con.attrs["assertions"][k].attrs["margin"])) for k in ("a0", "a1")]))
    S.eq("the smallest margin is returned", xr(I.norm_scalar(r)), mn)


@script(["C02"], "Contest.find_margins_from_tally/post (margins follow the CURRENT tally; bounded: 2 assertions)")
def find_margins_from_tally_post(S, I, variant):
    c = ctx()
    cards = S.integer("cards", lo=1)
    tw, t1, t2 = (S.integer(n_, lo=0, hi=cards) for n_ in ("tally_W", "tally_L1", "tally_L2"))
    con = mk_contest(I, id="con", name="con", cards=cards, candidates=["W", "L1", "L2"], winner=["W"], tally={"W": tw, "L1": t1, "L2": t2})
    r, exc = guard(S, I, lambda: I.call(I.get(MOD, "Assertion.make_plurality_assertions"), [], {"contest": con, "winner": ["W"], "loser": ["L1", "L2"]}))
    if exc:
        return
    con.attrs["assertions"] = r
    for k in r:                 # margins left over from an earlier tally
        r[k].attrs["margin"] = S.real(f"stale_margin[{k}]")
    _, exc = guard(S, I, lambda: I.call(I.getattr(con, "find_margins_from_tally"), [], {}))
    if exc:
        return
    for l, tl in (("L1", t1), ("L2", t2)):
        S.eq(f"[W v {l}] margin = (tally_W - tally_{l})/cards for the tally the contest holds now",
             xr(r[f"W v {l}"].attrs["margin"]), xdiv_np(XR.const(mkint(isub(tw, tl))), XR.const(cards)))
