"""shared helpers for contract modules"""
from pyvc.core import *
from pyvc.values import *
from pyvc.interp import Obj, Builtin, BoundMethod, Closure


def make_script_registry(module_name):
    SCRIPTS = []

    def script(props, name, variants=((),), optional=False):
        """optional=True: an unbounded proof that has structure-bounded siblings / bounded stand-ins for the same clauses; if the
        current code uses a construct outside the VC generator's subset the script is skipped (reported), not an engine error"""
        def deco(f):
            for v in variants:
                SCRIPTS.append({"props": props, "name": name + ("" if not v else "[" + ",".join(map(str, v)) + "]"),
                                "fn": f, "variant": v, "module": module_name, "optional": optional})
            return f
        return deco
    return SCRIPTS, script


def guard(S, I, thunk, allowed=(), native=None):
    """run a piece of real code; an exception outside `allowed` is a failed 'no-exception' clause"""
    if native is not None:
        S.native_desc = native
    try:
        return thunk(), None
    except PyRaise as e:
        if e.exc_type in allowed:
            return None, e
        S.holds("no-exception:" + e.exc_type + ":" + e.msg[:60], False)
        return None, e


def npx(v):
    return xr(v).asnp()


def run_loop_body(I, st, env, in_class):
    """one iteration of a loop body inside an invariant / summary: `continue` ends the iteration, `break` is outside what
    the summaries describe (the script is then not applicable to this code shape)"""
    from pyvc.interp import ContinueEx, BreakEx
    try:
        I.exec_block(st.body, env, in_class)
    except ContinueEx:
        return
    except BreakEx:
        raise NotApplicable("the loop body leaves the loop with `break`")
