"""Contracts and proof scripts for shangrla/formats: manifests with a SYMBOLIC number of batches (pandas abstracted to columns)."""
import z3
from fractions import Fraction
from pyvc.core import *
from pyvc.values import *
from pyvc.interp import Obj, Builtin, BoundMethod, Closure
from pyvc.heap import *
from .common import make_script_registry, guard, npx

SCRIPTS, script = make_script_registry(__name__)
DOM = "shangrla.formats.Dominion"
HART = "shangrla.formats.Hart"


def int_col(name, B, lo=None):
    f = z3.Function(name, z3.IntSort(), z3.IntSort())
    seen = set()

    def elem(i):
        v = f(zi(i))
        if lo is not None and tid(zi(i)) not in seen:
            seen.add(tid(zi(i)))
            ctx().assume(v >= lo)
        return SInt(v)
    return SymArr(B, elem, "int", name=name)


def str_col(name, B):
    f = z3.Function(name, z3.IntSort(), z3.IntSort())
    return SymArr(B, lambda i: SymStr(f(zi(i))), "obj", name=name)


def manifest(S, vendor, with_cum=True):
    B = S.integer("batches", lo=1)
    sizes = int_col("size", iterm(B), lo=0)
    cols = {}
    if vendor == "Dominion":
        cols = {"Tray #": str_col("tray", iterm(B)), "Tabulator Number": str_col("tab", iterm(B)), "Batch Number": str_col("batch", iterm(B)),
                "Total Ballots": sizes, "VBMCart.Cart number": str_col("cart", iterm(B))}
    else:
        cols = {"Container": str_col("cont", iterm(B)), "Tabulator": str_col("tab", iterm(B)), "Batch Name": str_col("batch", iterm(B)),
                "Number of Ballots": sizes}
    if with_cum:
        F = sizes.fold("+")
        cols["cum_cards"] = SymArr(iterm(B), lambda i: F.at(mkint(iadd(i, 1))), "int")
    return B, sizes, SymFrame(cols, iterm(B))


@script(["C17"], "sample_from_manifest/one sample number, symbolic manifest", variants=(("Dominion",), ("Hart",)))
def sample_from_manifest_post(S, I, variant):
    vendor = variant[0]
    B, sizes, man = manifest(S, vendor)
    F = sizes.fold("+")
    total = F.at(iterm(B))
    one_based = vendor == "Dominion"
    s = S.integer("s", lo=1 if one_based else 0)
    c = ctx()
    c.assume(zi(iterm(s)) <= (zi(iterm(total)) if one_based else zi(iterm(total)) - 1))
    fn = I.get(DOM if one_based else HART, vendor + ".sample_from_manifest")
    r, exc = guard(S, I, lambda: I.call(fn, [man, [s]], {}))
    if exc:
        return
    cards, so, mph = r
    S.holds("one card per sample number", len(cards) == 1 and len(so) == 1)
    if len(cards) != 1 or len(so) != 1:
        return
    card = cards[0]
    if one_based:
        tab, batch, pos, card_id, s_out = card[2], card[3], card[4], card[5], card[6]
    else:
        tab, batch, pos, card_id = card[1], card[2], card[3], card[4]
    # the batch the card sits in: recover its index from the looked-up row (ghost: index b with tab = tab[b] is the one the code used)
    b = z3.Int(c.fresh("b"))
    # the code read row batch_num-1; we characterise it by the defining inequalities instead of by its name
    before = lambda k: F.at(k)        # cards in batches 0..k-1
    lo_ok = icmp(">=", pos, 1) if one_based else icmp(">=", pos, 0)
    # existence of the unique batch index with  before(b) + pos = s  and pos within size[b]
    cand = z3.Int(c.fresh("bidx"))
    reg_witness(c, cand)
    sz = lambda k: sizes.at(k)
    rowtab = man.cols["Tabulator Number" if one_based else "Tabulator"]
    from pyvc.values import instantiate_universals
    # the row index used by the code is (searchsorted result - 1); it is registered as a witness index, find it via the tab value
    S.holds("position within the batch's size and sample number = cards before the batch + position (some batch index b)",
            z3.Exists([cand], z3.And(cand >= 0, cand < zi(iterm(B)),
                                     zb(bterm(I.equal(tab, rowtab.at(cand)))),
                                     zb(lo_ok),
                                     zb(icmp("<=", pos, sz(cand)) if one_based else icmp("<", pos, sz(cand))),
                                     zi(iterm(s)) == zi(iterm(before(cand))) + zi(iterm(pos)))))
    key = list(so.keys())[0]
    S.holds("selection order recorded under the card's identifier", key is card_id and I.equal(so[key]["selection_order"], 0) is True)
    is_ph = bterm(I.equal(tab, "phantom"))
    S.holds("phantom manual record exactly for a card of the phantom batch",
            (len(mph) == 1 and mph[0].attrs["phantom"] is True and mph[0].attrs["id"] is card_id) if c.decide(is_ph) else len(mph) == 0)


@script(["C17"], "prep_manifest/post, symbolic manifest", variants=(("Dominion",), ("Hart",)))
def prep_manifest_post(S, I, variant):
    vendor = variant[0]
    B, sizes, man = manifest(S, vendor, with_cum=False)
    F = sizes.fold("+")
    total = F.at(iterm(B))
    max_cards = S.integer("max_cards", lo=0)
    n_cvrs = S.integer("n_cvrs", lo=0)
    fn = I.get(DOM if vendor == "Dominion" else HART, vendor + ".prep_manifest")
    r, exc = guard(S, I, lambda: I.call(fn, [man, max_cards, n_cvrs], {}), allowed=("AssertionError",))
    if exc:
        S.holds("refuses exactly manifests larger than the bound or smaller than the number of CVRs",
                bor(icmp(">", total, max_cards), icmp("<", total, n_cvrs)))
        return
    S.holds("accepted => manifest within [n_cvrs, max_cards]", band(icmp("<=", total, max_cards), icmp(">=", total, n_cvrs)))
    m2, mcards, ph = r
    S.holds("reports the manifest's card count", icmp("==", mcards, total))
    S.holds("phantoms = max_cards - manifest cards", icmp("==", ph, isub(max_cards, total)))
    cum = m2.cols["cum_cards"]
    S.holds("afterwards the manifest accounts for exactly max_cards cards", icmp("==", cum.at_checked(-1), max_cards))
    nb = m2.nrows
    S.holds("a phantom batch is appended iff cards are missing", biff(icmp("==", nb, iadd(B, 1)), icmp("<", total, max_cards)))
    tabcol = m2.cols["Tabulator Number" if vendor == "Dominion" else "Tabulator"]
    S.holds("the appended batch is the phantom batch", bimp(icmp("<", total, max_cards), bterm(I.equal(tabcol.at_checked(-1), "phantom"))))


# ------------------------------------------------------------------ C19: Dominion.read_cvrs (structure-bounded JSON, symbolic leaves)

def _marks(S, tag, cands):
    out = []
    for i, cand in enumerate(cands):
        out.append({"CandidateId": cand, "Rank": S.integer(f"{tag}.rank{i}", lo=0), "IsVote": S.boolean(f"{tag}.isvote{i}")})
    return out


def _oracle_contest(marks, enforce):
    """property text: per candidate the smallest positive rank among its counted marks (first counted mark's rank if none is positive)"""
    out = {}
    for cand in (5, 6):
        mine = [m for m in marks if m["CandidateId"] == cand]
        if not mine:
            continue
        counted = [bor(bterm(m["IsVote"]), bnot(enforce)) for m in mine]
        present = bor(*counted)
        val = None
        for m, c_ in reversed(list(zip(mine, counted))):
            val = m["Rank"] if val is None else mkint(iite(c_, m["Rank"], val))       # first counted mark's rank
        anypos = bor(*[band(c_, icmp(">", m["Rank"], 0)) for m, c_ in zip(mine, counted)])
        best, have = 0, False
        for m, c_ in zip(mine, counted):
            ok = band(c_, icmp(">", m["Rank"], 0))
            best = mkint(iite(band(ok, bor(bnot(have), icmp("<", m["Rank"], best))), m["Rank"], best))
            have = bor(have, ok)
        out[str(cand)] = (present, mkint(iite(anypos, best, val)))
    return out


def _session(layout, mod, orig_cons, mod_cons, group, rid="X"):
    def block(cons):
        if layout == "cards":
            return {"Cards": [{"Contests": cons[:1]}, {"Contests": cons[1:]}]}
        return {"Contests": cons}
    sess = {"TabulatorId": 3, "BatchId": 7, "RecordId": rid, "CountingGroupId": group,
            "ImageMask": "D:\\NAS\\Tabulator00003\\Batch007\\Images\\00003_00007_000123*.*"}
    if mod == "first":
        sess["Modified"] = block(mod_cons)
    sess["Original"] = block(orig_cons)
    if mod == "second":
        sess["Modified"] = block(mod_cons)
    return sess


@script(["C19"], "Dominion.read_cvrs/marks+adjudication (bounded: 1 session, 2 contests, <= 3 marks; symbolic ranks, IsVote, options)",
        variants=tuple((lay, mod, pat) for lay in ("cards", "flat") for mod in ("none", "first", "second") for pat in ("555", "565")))
def dominion_read_cvrs_marks(S, I, variant):
    layout, mod, pat = variant
    c = ctx()
    enforce = S.boolean("enforce_rules")
    use_current = S.boolean("use_current")
    m_orig_10 = _marks(S, "orig10", [int(ch) for ch in pat])
    m_orig_11 = _marks(S, "orig11", [6])
    m_mod_10 = _marks(S, "mod10", [5, 5] if pat == "555" else [6, 5])
    sess = _session(layout, mod, [{"Id": 10, "Marks": m_orig_10}, {"Id": 11, "Marks": m_orig_11}], [{"Id": 10, "Marks": m_mod_10}], 1)
    I.files = {"export.json": {"Sessions": [sess]}}
    fn = I.get(DOM, "Dominion.read_cvrs")
    r, exc = guard(S, I, lambda: I.call(fn, ["export.json"], {"use_current": use_current, "enforce_rules": enforce}))
    if exc:
        return
    S.holds("one record for the session", len(r) == 1)
    if len(r) != 1:
        return
    cvr = r[0]
    S.holds("identifier and tally pool derived from tabulator, batch and record number (obfuscated id resolved)",
            cvr.attrs["id"] == "3-7-123" and cvr.attrs["tally_pool"] == "3-7")
    en = bterm(enforce)
    uc = c.decide(bterm(use_current))
    exp = {"10": _oracle_contest(m_mod_10 if (uc and mod != "none") else m_orig_10, en), "11": _oracle_contest(m_orig_11, en)}
    votes = cvr.attrs["votes"]
    S.holds("contests of the record", sorted(votes.keys()) == ["10", "11"])
    for cid in ("10", "11"):
        got = votes.get(cid, {})
        for cand, (present, val) in exp[cid].items():
            has = cand in got
            S.holds(f"[{cid}/{cand}] candidate recorded iff it has a counted mark", biff(has, present))
            if has:
                S.holds(f"[{cid}/{cand}] value = smallest positive rank among counted marks (adjudicated data replace original ones)",
                        bterm(I.equal(got[cand], val)))
        S.holds(f"[{cid}] no other candidates", set(got.keys()) <= set(exp[cid].keys()))


@script(["C19"], "Dominion.read_cvrs/sessions+groups (bounded: 2 sessions; symbolic counting groups and options)")
def dominion_read_cvrs_groups(S, I, variant):
    g = [S.choose(f"group{i}", [1, 2]) for i in range(2)]
    inc = S.choose("include_groups", [[], [1], [2]])
    pool = S.choose("pool_groups", [[], [2], [1, 2]])
    sessions = []
    for i in range(2):
        s_ = _session("flat", "none", [{"Id": 10, "Marks": [{"CandidateId": 5, "Rank": 1, "IsVote": True}]}], [], g[i], rid=100 + i)
        s_["BatchId"] = 7 + i
        sessions.append(s_)
    I.files = {"export.json": {"Sessions": sessions}}
    fn = I.get(DOM, "Dominion.read_cvrs")
    r, exc = guard(S, I, lambda: I.call(fn, ["export.json"], {"include_groups": inc, "pool_groups": pool}))
    if exc:
        return
    keep = [i for i in range(2) if (not inc) or g[i] in inc]
    S.holds("exactly one record per session of the included counting groups, in file order",
            [cv.attrs["id"] for cv in r] == [f"3-{7 + i}-{100 + i}" for i in keep])
    if len(r) == len(keep):
        for cv, i in zip(r, keep):
            S.holds(f"[session {i}] tally pool = tabulator-batch", cv.attrs["tally_pool"] == f"3-{7 + i}")
            S.holds(f"[session {i}] pooled exactly when its counting group is designated for pooling", I.equal(cv.attrs["pool"], g[i] in pool) is True)


@script(["C17"], "sample_from_manifest/lemmas over its contract: sample numbers <-> (batch, position) pairs one-to-one and onto (unbounded)",
        variants=(("Dominion",), ("Hart",)))
def manifest_bijection_lemmas(S, I, variant):
    """No code is run here: consequences of the contract the look-up script proves of the real sample_from_manifest
    (for a valid sample number s the card returned sits in a batch b at position pos with s = cards before b + pos and pos
    within the batch's size).  With batch sizes >= 0 (any, including empty batches) that decomposition is unique, so the
    look-up is a bijection between the valid sample numbers and the (batch, position) pairs."""
    one_based = variant[0] == "Dominion"
    c = ctx()
    B = S.integer("batches", lo=1)
    sizes = int_col("size", iterm(B), lo=0)
    F = sizes.fold("+")
    total = F.at(iterm(B))
    lo = 1 if one_based else 0
    valid = lambda b, pos: band(icmp(">=", b, 0), icmp("<", b, B), icmp(">=", pos, lo),
                                icmp("<=", pos, sizes.at(b)) if one_based else icmp("<", pos, sizes.at(b)))
    b1, p1, b2, p2 = (z3.Int(c.fresh(n)) for n in ("b1", "p1", "b2", "p2"))
    # cards before a batch are monotone in the batch index (induction on the distance)
    mono = S.induction("cards before batch b1+1+d >= cards before batch b1+1",
                       lambda d: bimp(band(icmp(">=", b1, 0), icmp("<=", iadd(iadd(b1, 1), d), B)),
                                      icmp(">=", F.at(iadd(iadd(b1, 1), d)), F.at(iadd(b1, 1)))), lo=0)
    mono2 = S.induction("cards before batch b2+1+d >= cards before batch b2+1",
                        lambda d: bimp(band(icmp(">=", b2, 0), icmp("<=", iadd(iadd(b2, 1), d), B)),
                                       icmp(">=", F.at(iadd(iadd(b2, 1), d)), F.at(iadd(b2, 1)))), lo=0)
    if not (mono(isub(b2, iadd(b1, 1))) and mono2(isub(b1, iadd(b2, 1))) and mono(isub(B, iadd(b1, 1)))):
        S.undecided("bijection lemmas (monotonicity not discharged)")
        return
    sizes.at(b1), sizes.at(b2)          # (size >= 0 facts of the two batches)
    nonneg = S.induction("cards before any batch >= 0", lambda k: bimp(icmp("<=", k, B), icmp(">=", F.at(k), 0)), lo=0)
    if not nonneg(b1):
        S.undecided("bijection lemmas (non-negativity not discharged)")
        return
    S.holds("a sample number has at most one decomposition: same s => same batch and same position",
            bimp(band(valid(b1, p1), valid(b2, p2), icmp("==", iadd(F.at(b1), p1), iadd(F.at(b2), p2))),
                 band(icmp("==", b1, b2), icmp("==", p1, p2))))
    s1 = iadd(F.at(b1), p1)
    S.holds("every (batch, position) pair within the batch's size is the image of a valid sample number (onto)",
            bimp(valid(b1, p1), band(icmp(">=", s1, lo), icmp("<=", s1, total) if one_based else icmp("<", s1, total))))
