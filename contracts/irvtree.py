"""Contracts and proof scripts for shangrla/core/IRVVisualisationUtils.py (C20): the pruned elimination tree, executed symbolically
for fixed candidate sets and SYMBOLIC assertion sets (each slot of the NEB / NEN lists holds an arbitrary assertion or none)."""
import z3
import itertools
from pyvc.core import *
from pyvc.values import *
from pyvc.interp import Obj, Builtin
from pyvc.heap import SymStr
from .common import make_script_registry, guard

MOD = "shangrla.core.IRVVisualisationUtils"
SCRIPTS, script = make_script_registry(__name__)


def sym_cand(S, name, cands):
    """a candidate chosen symbolically among `cands`, or nobody (code 0): an assertion naming nobody never fires"""
    v = z3.Int(name)
    S._rec(name, v)
    codes = [SymStr.code(c) for c in cands]
    ctx().assume(z3.Or(v == 0, *[v == k for k in codes]))
    return SymStr(v)


def is_c(sym, c):
    return zi(sym.t) == SymStr.code(c)


def leaves(t, path=()):
    if len(t) == 1:
        yield path + (t[0],), t[0]
    else:
        for br in t[1]:
            yield from leaves(br, path + (t[0],))


@script(["C20"], "buildRemainingTreeAsLists/post (fixed candidates, symbolic assertion sets)",
        variants=(("3cands", "1neb"), ("3cands", "2neb"), ("3cands", "3neb")))
def tree_post(S, I, variant):
    nc = int(variant[0][0])
    nneb = int(variant[1][0])
    cands = [str(k) for k in range(1, nc + 1)]
    root = cands[0]
    others = cands[1:]
    c = ctx()
    # NEB slots: (loser, winner, proved) with symbolic loser / winner
    WO = []
    for k in range(nneb):
        WO.append((sym_cand(S, f"neb{k}.loser", cands), sym_cand(S, f"neb{k}.winner", cands), S.boolean(f"neb{k}.proved")))
    # NEN slots: one per possible eliminated set, naming a symbolic candidate (or nobody)
    IR = []
    subsets = [frozenset(E) for r in range(0, nc) for E in itertools.combinations(cands, r)]
    for k, E in enumerate(subsets):
        IR.append((sym_cand(S, f"nen{k}.cand", [x for x in cands if x not in E]), set(E), S.boolean(f"nen{k}.proved")))
    fn = I.get(MOD, "buildRemainingTreeAsLists")
    tree, exc = guard(S, I, lambda: I.call(fn, [root, set(others), list(WO), list(IR)], {}))
    if exc:
        return

    def fires(cand, gone):
        neb = bor(*[band(is_c(l, cand), bor(*[is_c(w, g) for g in gone]) if gone else False) for (l, w, p) in WO])
        nen = bor(*[band(is_c(cc, cand), True) for (cc, E, p) in IR if E == set(gone)])
        return bor(neb, nen)

    # oracle: some complete elimination order ending in `root` is contradicted by no assertion
    surv = []
    for perm in itertools.permutations(others):
        seq = list(perm) + [root]
        surv.append(band(*[bnot(fires(seq[j], seq[:j])) for j in range(len(seq))]))
    some_order_survives = bor(*surv)
    lv = list(leaves(tree))
    untagged = [n for _, n in lv if len(n[1]) == 0 and len(n[2]) == 0]
    S.holds("an unpruned leaf exists exactly when some complete order ending in the candidate is contradicted by no assertion",
            biff(len(untagged) > 0, some_order_survives))
    for path, n in lv:
        names = [p if isinstance(p, str) else p[0] for p in path]
        gone = [x for x in others if x not in names[1:]] if len(names) > 1 else list(others)
        cand = names[-1]
        tagged = len(n[1]) > 0 or len(n[2]) > 0
        S.holds("a leaf is tagged exactly when an assertion contradicts it", biff(tagged, fires(cand, gone)))
        # every tag refers to an assertion that fires here, and every firing assertion is tagged
        for k, (l, w, p) in enumerate(WO):
            f = band(is_c(l, cand), bor(*[is_c(w, g) for g in gone]) if gone else False)
            listed = bor(*[bterm(I.equal(WO[I.conc_int(t[0])], WO[k])) for t in n[1]]) if n[1] else False
            if tagged:
                S.holds(f"NEB slot {k} is among the tags iff it contradicts the node", biff(listed, f))
        for d in range(len(names) - 1):
            anc_gone = [x for x in others if x not in names[1:d + 1]] if d > 0 else list(others)
            S.holds("no ancestor of a leaf is contradicted (pruning happens at the first contradicted node)", bnot(fires(names[d], anc_gone)))
    S.native_desc = None


for _d in SCRIPTS:
    if "3neb" in _d["name"]:
        _d["thorough_only"] = True
