"""per-property metadata for the evidence files: level, trusted base, assumptions, bounded stand-ins"""

COMMON_ASSUMPTIONS = [
    "Python int = mathematical integers (true in CPython)",
    "float / np.float64 = extended real line with NaN (fin|+inf|-inf|nan): IEEE rules for special values, EXACT arithmetic "
    "on finite values; rounding, overflow to inf, underflow and signed zero are NOT modelled (machine arithmetic treated as mathematical)",
    "numpy fragment (cumsum, cumprod, insert, arange, slices, mask / index assignment, minimum, maximum, isclose, isfinite, "
    "sum, mean, max, argmax, tile, repeat, append, sqrt) is axiomatised in /verif/pyvc/npmodel.py: assumed contracts on a dependency (audited on concrete inputs against real numpy by tools/conformance.py, results in conformance/RESULTS.txt; not proved)",
    "termination of loops is not proved",
    "the verification-condition generator /verif/pyvc (our own ast -> z3 symbolic executor) is trusted; it is audited by "
    "seeded property-breaking changes (/verif/seeded) and by native replay of every counter-model, not verified",
    "extraction drops docstrings, print / warnings.warn calls, type annotations and the np.errstate wrapper (body kept); counted "
    "in coverage.extraction_dropped",
    "solvers: z3 4.x/5.1 python API (nlsat), /usr/bin/cvc5 on z3's unknown; nonlinear products are first abstracted to "
    "uninterpreted functions (sound for validity)",
]

LEVEL = {p: "other" for p in ("C03", "C04", "C06", "C07", "C08", "C09", "C10", "C14", "C15", "C16", "C17", "C18", "C19", "C20")}
_MIX = ("Two layers, reported separately in this file: (1) obligations = verification conditions generated from /repo's source by pyvc and "
        "discharged by z3/cvc5 (coverage.obligations / discharged / scripts); where a script name says 'bounded: ...' the record structure "
        "(number of cards / contests / candidates) is fixed and every leaf value is symbolic, so those obligations are complete for that "
        "structure only; (2) bounded_standins = exhaustive small-scope run-time contract checking of the real functions under CPython "
        "(coverage.bounded_standins: bound, cases, failures). Nothing bounded is counted as proved. ")
EXPLANATION = {p: _MIX for p in LEVEL}
for _p in ("C01", "C11", "C12", "C13"):
    EXPLANATION[_p] = ("obligations = verification conditions generated from /repo's source by pyvc for symbolic sample lengths and discharged by "
                       "z3/cvc5 (coverage.obligations / discharged). They model observations as extended reals; the one consequence of that "
                       "assumption that can be checked natively is covered by a BOUNDED stand-in (coverage.bounded_standins, never counted as "
                       "proved): integer-typed samples (Python ints, integer arrays) must give the same p-values and histories as the float "
                       "samples the obligations are about. A second bounded stand-in (nonneg_definitions) is an engine-independent net: every "
                       "test, built through the real constructor, is run natively on every small sample over {0, u/2, u} and compared with the "
                       "published products and the well-formedness clauses.")
# bounded stand-ins (native exhaustive small-scope contract checking, /verif/bounded/cases.py): property -> [(case, clause filter)]
# a filter is a tuple of substrings: only failures whose clause contains one of them count for that property (None = all)
BOUNDED_CASES = {
    "C01": [("nonneg_dtype", None), ("nonneg_definitions", None)],
    "C11": [("nonneg_dtype", None), ("nonneg_definitions", ("one history entry", "overall p", "the test returns"))],
    "C12": [("nonneg_dtype", None), ("nonneg_definitions", ("history = min",))],
    "C13": [("nonneg_dtype", None)],
    "C05": [("nonneg_nonanticipation", None)],
    "C02": [("assorters", None)],
    "C03": [("overstatement", ("mean(B)", "does not raise"))],
    "C04": [("raire", ("does not raise", "list of assertions", "empty list exactly", "holds on the CVRs", "every elimination order"))],
    "C06": [("overstatement", ("0 <= B",)), ("data_and_pvalues", ("u = assorter bound", "only cards whose CVR", "data lie in"))],
    "C07": [("consistent_sampling", None), ("assign_sample_nums", None), ("data_and_pvalues", ("only cards whose CVR",)),
            ("prep_samples", None), ("manifests", ("selection order recorded",))],
    "C08": [("make_phantoms", None), ("overstatement", ("phantom",))],
    "C09": [("data_and_pvalues", ("recorded p-value", "proved reflects", "measured risk", "complete iff", "reset restores"))],
    "C10": [("sampling_escalation", None), ("escalation_pvalues", None), ("prep_samples", None)],
    "C14": [("raire_readers", ("both readers", "load_contests_from_raire")), ("irv_predicates", None)],
    "C15": [("raire", ("largest difficulty",))],
    "C16": [("interleave_values", None), ("find_sample_size", None), ("audit_find_sample_size", None)],
    "C17": [("manifests", None), ("prep_samples", None)],
    "C18": [("merge_cvrs", None), ("raire_readers", ("from_raire",))],
    "C19": [("dominion_read_cvrs", None)],
    "C20": [("irv_tree", None)],
}
BOUNDED = {}
EXTRA_TRUSTED = {
    "C01": ["(V) Ville's inequality for non-negative supermartingales started at 1 (textbook theorem, not proved here)",
            "(S) under simple random sampling without replacement from a population with mean theta, "
            "E[X_i | X_<i] = (N theta - sum_{k<i} X_k)/(N-i+1); = theta for IID draws (textbook, not proved here)"],
}
EXTRA_ASSUMPTIONS = {
    "C07": ["unbounded proof: sorted(enumerate(L), key=k) is taken by its contract (a permutation of the positions ordered by k); the "
            "precondition 'n_c <= number of cards listing c' is stated over the sorted order (same count under a permutation); "
            "two contests; the final flag-setting loop and the returned order are decided by the structure-bounded scripts"],
    "C08": ["unbounded proof: the records handed in are real CVRs (phantom=False); str() of integers is injective; a sum over a list is a "
            "function of its summands (extensionality, used to identify the code's count with the specification's); two contests; "
            "loop summaries are checked on the real loop bodies at an arbitrary iteration"],
    "C04": ["find_best_audit proof: 3 candidates; ballots are duplicate-free rankings with non-negative positions; the difficulty function is "
            "uninterpreted; that an applicable true assertion contradicts every order ending in the node's tail is the RAIRE paper's lemma, "
            "not re-proved here; the search loop is covered by the bounded stand-in only"],
    "C15": ["as C04; whole-search optimality only by the bounded stand-in"],
    "C09": ["unbounded proofs: a dict of contests / assertions is modelled as an insertion-ordered collection of symbolic size whose keys are "
            "pairwise distinct tokens; each assertion's test and mvrs_to_data are taken through their interfaces (C11: p in [0,1], not NaN); "
            "record-loop summaries: the real loop body is run at an arbitrary entry under the accumulator invariant, and an entry's state "
            "after the loop is what the body produces at that entry (bodies touch only their own entry, the owner's tables and the accumulator: "
            "checked on the run, not proved as a frame condition for unseen code)"],
    "C06": ["mvrs_to_data unbounded proof: the assorter is taken through its interface (a value in [0, upper bound] per card); "
            "set_p_values as for C09"],
    "C10": ["the lemma scripts run no code: they derive the round-to-round statements from the contracts proved for consistent_sampling (C07), "
            "the tests (C05, C11) and set_p_values (C09); the continuation call of consistent_sampling is covered by the bounded stand-in only "
            "(repaired by fix 9bfcd8d, formerly known finding K5)"],
    "C16": ["find_sample_size scripts: the test's sample_size and interleave_values are used through their contracts (proved by their own "
            "scripts); int(1/rate) is handled for rates of the form 1/step"],
    "C02": ["Assorter.mean / sum / Contest.tally unbounded proofs: a sum over a list is a function of its summands (extensionality) is used to "
            "identify the code's aggregate with the specification's after the summands have been proved pointwise equal"],
    "C17": ["pandas is abstracted to columns (iloc, column access, cumsum, concat of one row), np.searchsorted is used through its contract; "
            "the bijection lemmas run no code"],
}

FUNCTIONS = {}   # script-name prefix -> repository functions under contract


def functions_of(script_name):
    base = script_name.split("/")[0]
    out = [base]
    out.extend(FUNCTIONS.get(base, []))
    return out


def trusted_base(prop):
    return ["z3 (nlsat) and cvc5 as SMT back ends", "pyvc VC generator and its numpy/Python semantics (see assumptions)"] + \
        EXTRA_TRUSTED.get(prop, [])


def assumptions(prop):
    return COMMON_ASSUMPTIONS + EXTRA_ASSUMPTIONS.get(prop, [])
