"""per-property metadata for the evidence files: level, trusted base, assumptions, bounded stand-ins"""

COMMON_ASSUMPTIONS = [
    "Python int = mathematical integers (true in CPython)",
    "float / np.float64 = extended real line with NaN (fin|+inf|-inf|nan): IEEE rules for special values, EXACT arithmetic "
    "on finite values; rounding, overflow to inf, underflow and signed zero are NOT modelled (machine arithmetic treated as mathematical)",
    "numpy fragment (cumsum, cumprod, insert, arange, slices, mask / index assignment, minimum, maximum, isclose, isfinite, "
    "sum, mean, max, argmax, tile, repeat, append, sqrt) is axiomatised in /verif/pyvc/npmodel.py: assumed contracts on a dependency",
    "termination of loops is not proved",
    "the verification-condition generator /verif/pyvc (our own ast -> z3 symbolic executor) is trusted; it is audited by "
    "seeded property-breaking changes (/verif/seeded) and by native replay of every counter-model, not verified",
    "extraction drops docstrings, print / warnings.warn calls, type annotations and the np.errstate wrapper (body kept); counted "
    "in coverage.extraction_dropped",
    "solvers: z3 4.x/5.1 python API (nlsat), /usr/bin/cvc5 on z3's unknown; nonlinear products are first abstracted to "
    "uninterpreted functions (sound for validity)",
]

LEVEL = {}
EXPLANATION = {}
BOUNDED = {}
EXTRA_TRUSTED = {
    "C01": ["(V) Ville's inequality for non-negative supermartingales started at 1 (textbook theorem, not proved here)",
            "(S) under simple random sampling without replacement from a population with mean theta, "
            "E[X_i | X_<i] = (N theta - sum_{k<i} X_k)/(N-i+1); = theta for IID draws (textbook, not proved here)"],
}
EXTRA_ASSUMPTIONS = {}

FUNCTIONS = {}   # script-name prefix -> repository functions under contract


def functions_of(script_name):
    base = script_name.split("/")[0]
    out = [base]
    out.extend(FUNCTIONS.get(base, []))
    return out


def trusted_base(prop):
    return ["z3 (nlsat) and cvc5 as SMT back ends", "pyvc VC generator and its numpy/Python semantics (see assumptions)"] + \
        EXTRA_TRUSTED.get(prop, [])


def assumptions(prop):
    return COMMON_ASSUMPTIONS + EXTRA_ASSUMPTIONS.get(prop, [])
