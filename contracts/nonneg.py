"""Contracts (sidecar, keyed by qualified name) and proof scripts for shangrla/core/NonnegMean.py.

Notation: x sample of length n, entries in [0,u]; PS(k) = sum_{i<k} x_i (ghost fold of the *input* array, never
the code's own running sum); mu_k = (N t - PS(k))/(N-k) for finite N, t otherwise (0-based: mu_k is the null mean
before draw k, i.e. mu_{k+1} of the property text).
"""
import z3
from fractions import Fraction
from pyvc.core import *
from pyvc.values import *
from pyvc.interp import Obj, Builtin, BoundMethod, Closure
from pyvc.script import Script
from pyvc.npmodel import EPS

MOD = "shangrla.core.NonnegMean"
INF = XR.const(float("inf"))

SCRIPTS = []


def script(props, name, variants=((),)):
    def deco(f):
        for v in variants:
            SCRIPTS.append({"props": props, "name": name + ("" if not v else "[" + ",".join(map(str, v)) + "]"),
                            "fn": f, "variant": v, "module": __name__})
        return f
    return deco


# ------------------------------------------------------------------ spec functions (from the property text)

def npx(v):
    return xr(v).asnp()


def mu_spec(N, t, PS, k):
    """null conditional mean before draw k (0-based)"""
    if N is None:
        return npx(t)
    return xdiv_np(npx(xsub(xmul(XR.const(N), t), PS.at(k))), npx(XR.const(isub(N, k))))


def mu_arr(N, t, x):
    PS = x.fold("+")
    return SymArr(x.length, lambda k: mu_spec(N, t, PS, k), "xr") if x.items is None else \
        SymArr(0, kind="xr", items=[mu_spec(N, t, PS, k) for k in range(len(x.items))])


def mk_arr(n, f):
    if isinstance(n, int):
        return SymArr(0, kind="xr", items=[f(k) for k in range(n)])
    return SymArr(n, f, "xr")


def alpha_factor(x, eta, mu, u):
    """[x eta/mu + (u-x)(u-eta)/(u-mu)]/u, numpy semantics"""
    a = xdiv_np(xmul(npx(x), eta), mu)
    b = xdiv_np(xmul(xsub(u, npx(x)), xsub(u, eta)), xsub(u, mu))
    return xdiv_np(xadd(a, b), npx(u))


def bet_factor(x, lam, mu):
    return xadd(XR.const(1, npk=True), xmul(lam, xsub(npx(x), mu)))


ATOL = XR.const(2 * EPS)
RTOL6 = XR.const(Fraction(1, 10 ** 6))
RTOL_DEFAULT = XR.const(Fraction(1, 10 ** 5))
ATOL_DEFAULT = XR.const(Fraction(1, 10 ** 8))


def mart_hist_spec(T, mu, j, n, u, N, t, Stot):
    """history entry j of ALPHA / betting martingale from the raw running product T (value at j), with the
    documented boundary conventions in priority order"""
    one = XR.const(1, npk=True)
    total_exceeds = False if N is None else xcmp(">", Stot, xmul(XR.const(N), t))
    last = icmp("==", j, isub(n, 1))
    raw = xminimum(one, xdiv_np(one, T))
    tiny = xisclose(XR.const(0), T, ATOL, RTOL_DEFAULT)
    near0 = xisclose(XR.const(0), mu, ATOL, RTOL_DEFAULT)
    nearu = xisclose(u, mu, ATOL, RTOL6)
    v = raw
    v = xite(bor(xcmp(">", mu, u), near0, nearu, tiny), one, v)   # p = 1 where mu > u / conventions "ignore"
    v = xite(xcmp("<", mu, XR.const(0)), XR.const(0, npk=True), v)   # total so far exceeds N t  => p = 0
    v = xite(band(last, total_exceeds), XR.const(0, npk=True), v)    # final total exceeds N t => p = 0
    return v


# ------------------------------------------------------------------ callee contracts

def contract_sjm(I, fn, args, kwargs):
    """NonnegMean.sjm(N, t, x): requires N int or +inf, len(x) <= N (else AssertionError);
    ensures S[k] = PS(k), Stot = PS(n), j[k] = k+1, m[k] = mu_k (scalar t when N = +inf)"""
    names = ["self", "N", "t", "x"]
    vals = dict(zip(names, args))
    vals.update(kwargs)
    N, t, x = vals["N"], vals["t"], vals["x"]
    from pyvc.npmodel import to_arr
    x = to_arr(I, x)
    n = x.length
    c = ctx()
    if isinstance(N, (int, SInt)) and not isinstance(N, bool):
        Nint = N
    elif isinstance(N, XR):
        if not c.decide(band(N.pinf)):
            raise PyRaise("AssertionError", "Population size is not an integer!")
        Nint = None
    else:
        raise PyRaise("AssertionError", "Population size is not an integer!")
    if isinstance(n, int) and n == 0:
        raise PyRaise("IndexError", "index -1 is out of bounds for axis 0 with size 0")
    if not isinstance(n, int) and c.decide(icmp("<=", n, 0)):
        raise PyRaise("IndexError", "index -1 is out of bounds for axis 0 with size 0")
    if Nint is not None and not c.decide(icmp("<=", n, Nint)):
        raise PyRaise("AssertionError", "Sample size is larger than the population!")
    PS = x.fold("+")
    Sarr = mk_arr(n, lambda k: npx(PS.at(k)))
    Stot = npx(PS.at(n))
    jarr = SymArr(n, lambda k: mkint(iadd(k, 1)), "int") if not isinstance(n, int) else SymArr(0, kind="int", items=list(range(1, n + 1)))
    if Nint is None:
        m = t
    else:
        m = mk_arr(n, lambda k: mu_spec(Nint, t, PS, k))
    return (Sarr, Stot, jarr, m)


def abstract_vec(arr):
    """field-held callable (self.estim / self.bet) abstracted to a given array"""
    return Builtin("abstract", lambda I, a, k: arr.copy())


def mk_self(I, attrs):
    cls = I.get(MOD, "NonnegMean")
    return Obj(cls, dict(attrs))


def install_contracts(I, which=("sjm",)):
    if "sjm" in which:
        I.contracts["NonnegMean.sjm"] = contract_sjm


def base_regime(S, finiteN, nlo=1):
    """u > t > 0, n >= nlo, N >= n (finite) or N = +inf"""
    n = S.length("n", lo=nlo)
    u = S.real("u", lo_strict=0)
    t = S.real("t", lo_strict=0, hi_strict=u)
    if finiteN:
        N = S.integer("N", lo=n if isinstance(n, int) else n)
        Nv, Nspec = N, N
    else:
        Nv, Nspec = INF, None
    return n, u, t, Nv, Nspec


def run_guard(S, I, fn, args, kwargs=None, allowed=()):
    """run the real body; an exception outside `allowed` is a failed 'no-exception' obligation"""
    try:
        return I.run(fn, args, kwargs or {}), None
    except PyRaise as e:
        if e.exc_type in allowed:
            return None, e
        S.holds("no-exception:" + e.exc_type + ":" + e.msg[:40], False)
        return None, e


# ------------------------------------------------------------------ sjm

@script(["C12", "C05", "C01"], "NonnegMean.sjm/post", variants=(("finiteN",), ("infN",)))
def sjm_post(S, I, variant):
    finiteN = variant[0] == "finiteN"
    n, u, t, Nv, Nspec = base_regime(S, finiteN)
    x = S.array("x", n, 0, u)
    fn = I.get(MOD, "NonnegMean.sjm")
    r, exc = run_guard(S, I, fn, [mk_self(I, {}), Nv, t, x])
    if exc:
        return
    Sa, Stot, j, m = r
    PS = x.fold("+")
    S.holds("len(S)", icmp("==", Sa.length, n))
    S.holds("len(j)", icmp("==", j.length, n))
    for k in indices(S, n, "k"):
        S.eq("S[k]=PS(k)", Sa.at(k), PS.at(k))
        S.holds("j[k]=k+1", icmp("==", j.at(k), iadd(k, 1)))
        if finiteN:
            S.eq("m[k]=mu_k", m.at(k), mu_spec(Nspec, t, PS, k))
    if finiteN:
        S.holds("len(m)", icmp("==", m.length, n))
    else:
        S.eq("m=t", m, t)
    S.eq("Stot=PS(n)", Stot, PS.at(n))


def indices(S, n, name):
    """Skolem index in proof mode; every index in concrete-length modes"""
    if isinstance(n, int):
        return list(range(n))
    from pyvc.spec import skolem
    return [skolem(name, n)]


# ------------------------------------------------------------------ alpha_mart / betting_mart: product form (C12)

def mart_setup(S, I, which, finiteN, eta_lo=None, eta_hi=None, nlo=1):
    n, u, t, Nv, Nspec = base_regime(S, finiteN, nlo)
    x = S.array("x", n, 0, u)
    par = S.array("eta" if which == "alpha" else "lam", n, eta_lo, eta_hi)
    attrs = {"u": u, "N": Nv, "t": t}
    attrs["estim" if which == "alpha" else "bet"] = abstract_vec(par)
    self = mk_self(I, attrs)
    return n, u, t, Nv, Nspec, x, par, self


def mart_spec_arrays(which, n, u, t, Nspec, x, par):
    PS = x.fold("+")
    mu = lambda k: mu_spec(Nspec, t, PS, k)
    if which == "alpha":
        fs = mk_arr(n, lambda k: alpha_factor(x.at(k), par.at(k), mu(k), u))
    else:
        fs = mk_arr(n, lambda k: bet_factor(x.at(k), par.at(k), mu(k)))
    return PS, mu, fs


def fold_congruence(S, fc, fs, n, name="cumprod-congruence"):
    """lemma: the code's running product equals the spec's (induction; needs pointwise factor equality)"""
    Fc, Fs = fc.fold("*"), fs.fold("*")
    if isinstance(n, int):
        return lambda i: True
    return S.induction(name, lambda k: xsame(Fc.at(k), Fs.at(k)), lo=0, hi=n)


@script(["C12", "C01"], "NonnegMean.alpha_mart/product-form", variants=(("finiteN",), ("infN",)))
def alpha_product(S, I, variant):
    mart_product(S, I, "alpha", variant[0] == "finiteN")


@script(["C12", "C01"], "NonnegMean.betting_mart/product-form", variants=(("finiteN",), ("infN",)))
def betting_product(S, I, variant):
    mart_product(S, I, "betting", variant[0] == "finiteN")


def mart_product(S, I, which, finiteN):
    install_contracts(I)
    n, u, t, Nv, Nspec, x, par, self = mart_setup(S, I, which, finiteN)
    fn = I.get(MOD, "NonnegMean.alpha_mart" if which == "alpha" else "NonnegMean.betting_mart")
    I.trace.clear()
    r, exc = run_guard(S, I, fn, [self, x])
    if exc:
        return
    p, hist = r
    PS, mu, fs = mart_spec_arrays(which, n, u, t, Nspec, x, par)
    S.holds("len(hist)=n", icmp("==", hist.length, n))
    cps = I.trace.get("cum*", [])
    if len(cps) != 1:
        S.holds("exactly-one-running-product", False)
        return
    inst = fold_congruence(S, cps[0], fs, n)
    T = fs.fold("*")
    Stot = PS.at(n)
    for j in indices(S, n, "j"):
        inst(iadd(j, 1))
        S.eq("hist[j]=min(1,1/T_j)+conventions", hist.at(j), mart_hist_spec(T.at(iadd(j, 1)), mu(j), j, n, u, Nspec, t, Stot))
    S.check_vacuity("alpha_product")
