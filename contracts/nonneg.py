"""Contracts (sidecar, keyed by qualified name) and proof scripts for shangrla/core/NonnegMean.py.

Notation: x sample of length n, entries in [0,u]; PS(k) = sum_{i<k} x_i (ghost fold of the *input* array, never
the code's own running sum); mu_k = (N t - PS(k))/(N-k) for finite N, t otherwise (0-based: mu_k is the null mean
before draw k, i.e. mu_{k+1} of the property text).
"""
import z3
from fractions import Fraction
from pyvc.core import *
from pyvc.values import *
from pyvc.interp import Obj, Builtin, BoundMethod, Closure
from pyvc.script import Script
from pyvc.npmodel import EPS
from .common import run_loop_body, guard

MOD = "shangrla.core.NonnegMean"
INF = XR.const(float("inf"))

SCRIPTS = []


def script(props, name, variants=((),)):
    def deco(f):
        for v in variants:
            SCRIPTS.append({"props": props, "name": name + ("" if not v else "[" + ",".join(map(str, v)) + "]"),
                            "fn": f, "variant": v, "module": __name__})
        return f
    return deco


# ------------------------------------------------------------------ spec functions (from the property text)

def npx(v):
    return xr(v).asnp()


def mu_spec(N, t, PS, k):
    """null conditional mean before draw k (0-based)"""
    if N is None:
        return npx(t)
    k = idx_term(k)          # canonical index term, as used by array accesses
    return xdiv_np(npx(xsub(xmul(XR.const(N), t), PS.at(k))), npx(XR.const(isub(N, k))))


def mu_arr(N, t, x):
    PS = x.fold("+")
    return SymArr(x.length, lambda k: mu_spec(N, t, PS, k), "xr") if x.items is None else \
        SymArr(0, kind="xr", items=[mu_spec(N, t, PS, k) for k in range(len(x.items))])


def mk_arr(n, f):
    if isinstance(n, int):
        return SymArr(0, kind="xr", items=[f(k) for k in range(n)])
    return SymArr(n, f, "xr")


def alpha_factor(x, eta, mu, u):
    """[x eta/mu + (u-x)(u-eta)/(u-mu)]/u, numpy semantics"""
    a = xdiv_np(xmul(npx(x), eta), mu)
    b = xdiv_np(xmul(xsub(u, npx(x)), xsub(u, eta)), xsub(u, mu))
    return xdiv_np(xadd(a, b), npx(u))


def bet_factor(x, lam, mu):
    return xadd(XR.const(1, npk=True), xmul(lam, xsub(npx(x), mu)))


ATOL = XR.const(2 * EPS)
RTOL6 = XR.const(Fraction(1, 10 ** 6))
RTOL_DEFAULT = XR.const(Fraction(1, 10 ** 5))
ATOL_DEFAULT = XR.const(Fraction(1, 10 ** 8))


def mart_hist_spec(T, mu, j, n, u, N, t, Stot):
    """history entry j of ALPHA / betting martingale from the raw running product T (value at j), with the
    documented boundary conventions in priority order"""
    one = XR.const(1, npk=True)
    total_exceeds = False if N is None else xcmp(">", Stot, xmul(XR.const(N), t))
    last = icmp("==", j, isub(n, 1))
    raw = xminimum(one, xdiv_np(one, T))
    tiny = xisclose(XR.const(0), T, ATOL, RTOL_DEFAULT)
    near0 = xisclose(XR.const(0), mu, ATOL, RTOL_DEFAULT)
    nearu = xisclose(u, mu, ATOL, RTOL6)
    v = raw
    v = xite(bor(xcmp(">", mu, u), near0, nearu, tiny), one, v)   # p = 1 where mu > u / conventions "ignore"
    v = xite(xcmp("<", mu, XR.const(0)), XR.const(0, npk=True), v)   # total so far exceeds N t  => p = 0
    v = xite(band(last, total_exceeds), XR.const(0, npk=True), v)    # final total exceeds N t => p = 0
    return v


# ------------------------------------------------------------------ callee contracts

def contract_sjm(I, fn, args, kwargs):
    """NonnegMean.sjm(N, t, x): requires N int or +inf, len(x) <= N (else AssertionError);
    ensures S[k] = PS(k), Stot = PS(n), j[k] = k+1, m[k] = mu_k (scalar t when N = +inf)"""
    names = ["self", "N", "t", "x"]
    vals = dict(zip(names, args))
    vals.update(kwargs)
    N, t, x = vals["N"], vals["t"], vals["x"]
    from pyvc.npmodel import to_arr
    x = to_arr(I, x)
    n = x.length
    c = ctx()
    if isinstance(N, (int, SInt)) and not isinstance(N, bool):
        Nint = N
    elif isinstance(N, XR):
        if not c.decide(band(N.pinf)):
            raise PyRaise("AssertionError", "Population size is not an integer!")
        Nint = None
    else:
        raise PyRaise("AssertionError", "Population size is not an integer!")
    if isinstance(n, int) and n == 0:
        raise PyRaise("IndexError", "index -1 is out of bounds for axis 0 with size 0")
    if not isinstance(n, int) and c.decide(icmp("<=", n, 0)):
        raise PyRaise("IndexError", "index -1 is out of bounds for axis 0 with size 0")
    if Nint is not None and not c.decide(icmp("<=", n, Nint)):
        raise PyRaise("AssertionError", "Sample size is larger than the population!")
    PS = x.fold("+")
    I.trace.setdefault("sjm_x", []).append(x)
    Sarr = mk_arr(n, lambda k: npx(PS.at(k)))
    Stot = npx(PS.at(n))
    jarr = SymArr(n, lambda k: mkint(iadd(k, 1)), "int") if not isinstance(n, int) else SymArr(0, kind="int", items=list(range(1, n + 1)))
    if Nint is None:
        m = t
    else:
        m = mk_arr(n, lambda k: mu_spec(Nint, t, PS, k))
    return (Sarr, Stot, jarr, m)


def abstract_vec(arr):
    """field-held callable (self.estim / self.bet) abstracted to a given array"""
    return Builtin("abstract", lambda I, a, k: arr.copy())


def mk_self(I, attrs):
    cls = I.get(MOD, "NonnegMean")
    return Obj(cls, dict(attrs))


def install_contracts(I, which=("sjm",)):
    if "sjm" in which:
        I.contracts["NonnegMean.sjm"] = contract_sjm


def base_regime(S, finiteN, nlo=1):
    """u > t > 0, n >= nlo, N >= n (finite) or N = +inf"""
    n = S.length("n", lo=nlo)
    u = S.real("u", lo_strict=0)
    t = S.real("t", lo_strict=0, hi_strict=u)
    if finiteN:
        N = S.integer("N", lo=n if isinstance(n, int) else n)
        Nv, Nspec = N, N
    else:
        Nv, Nspec = INF, None
    return n, u, t, Nv, Nspec


def run_guard(S, I, fn, args, kwargs=None, allowed=(), native=None):
    """run the real body (AST, symbolic); in replay mode return the result of the native CPython run instead.
    An exception outside `allowed` is a failed 'no-exception' obligation."""
    S.native_desc = native
    if S.mode == "replay":
        out = S.native_out
        if not out.get("ok"):
            e = PyRaise(out.get("exception", "Exception"), out.get("message", ""))
            if e.exc_type in allowed:
                return None, e
            S.holds("no-exception:" + e.exc_type, False)
            return None, e
        return from_native(out["value"]), None
    try:
        return I.run(fn, args, kwargs or {}), None
    except PyRaise as e:
        if e.exc_type in allowed:
            return None, e
        S.holds("no-exception:" + e.exc_type, False)
        return None, e


def from_native(v):
    from pyvc.script import pin_to_num
    if isinstance(v, list):
        if all(not isinstance(x, (list, dict)) for x in v) and not any(isinstance(x, bool) for x in v) and \
                all(isinstance(x, (int, float, str)) for x in v) and not all(isinstance(x, int) for x in v):
            return SymArr(0, kind="xr", items=[XR.const(pin_to_num(x), npk=True) for x in v])
        if v and all(isinstance(x, int) and not isinstance(x, bool) for x in v):
            return SymArr(0, kind="int", items=list(v))
        return tuple(from_native(x) for x in v)
    if isinstance(v, bool) or v is None:
        return v
    if isinstance(v, int):
        return v
    if isinstance(v, (float, str)):
        try:
            return XR.const(pin_to_num(v), npk=True)
        except Exception:
            return v
    if isinstance(v, dict):
        return {k: from_native(x) for k, x in v.items()}
    return v


def nn_native(method, finiteN, attrs=(), abstract=None, named=None, args=("x",)):
    a = {"u": "u", "t": "t", "N": "N" if finiteN else "inf"}
    for k in attrs:
        a[k] = k
    d = {"kind": "nonneg_method", "method": method, "attrs": a, "args": list(args)}
    if abstract:
        d["abstract"] = abstract
    if named:
        d["named"] = named
    return d


# ------------------------------------------------------------------ sjm

@script(["C12", "C05", "C01"], "NonnegMean.sjm/post", variants=(("finiteN",), ("infN",)))
def sjm_post(S, I, variant):
    finiteN = variant[0] == "finiteN"
    n, u, t, Nv, Nspec = base_regime(S, finiteN)
    x = S.array("x", n, 0, u)
    fn = I.get(MOD, "NonnegMean.sjm")
    r, exc = run_guard(S, I, fn, [mk_self(I, {}), Nv, t, x],
                       native={"kind": "nonneg_method", "method": "sjm", "attrs": {},
                               "args": ["N" if finiteN else "inf", "t", "x"]})
    if exc:
        return
    Sa, Stot, j, m = r
    PS = x.fold("+")
    S.holds("len(S)", icmp("==", Sa.length, n))
    S.holds("len(j)", icmp("==", j.length, n))
    for k in indices(S, n, "k"):
        S.eq("S[k]=PS(k)", Sa.at(k), PS.at(k))
        S.holds("j[k]=k+1", icmp("==", j.at(k), iadd(k, 1)))
        if finiteN:
            S.eq("m[k]=mu_k", m.at(k), mu_spec(Nspec, t, PS, k))
    if finiteN:
        S.holds("len(m)", icmp("==", m.length, n))
    else:
        S.eq("m=t", m, t)
    S.eq("Stot=PS(n)", Stot, PS.at(n))


def indices(S, n, name):
    """Skolem index in proof mode; every index in concrete-length modes"""
    if isinstance(n, int):
        return list(range(n))
    from pyvc.spec import skolem
    return [skolem(name, n)]


# ------------------------------------------------------------------ alpha_mart / betting_mart: product form (C12)

def mart_setup(S, I, which, finiteN, eta_lo=None, eta_hi=None, nlo=1):
    n, u, t, Nv, Nspec = base_regime(S, finiteN, nlo)
    x = S.array("x", n, 0, u)
    par = S.array("eta" if which == "alpha" else "lam", n, eta_lo, eta_hi)
    attrs = {"u": u, "N": Nv, "t": t}
    attrs["estim" if which == "alpha" else "bet"] = abstract_vec(par)
    self = mk_self(I, attrs)
    S.base_facts = list(ctx().facts)       # parameter constraints (u > t > 0, N >= n >= 1, ...)
    return n, u, t, Nv, Nspec, x, par, self


def mart_spec_arrays(which, n, u, t, Nspec, x, par):
    PS = x.fold("+")
    mu = lambda k: mu_spec(Nspec, t, PS, k)
    if which == "alpha":
        fs = mk_arr(n, lambda k: alpha_factor(x.at(k), par.at(k), mu(k), u))
    else:
        fs = mk_arr(n, lambda k: bet_factor(x.at(k), par.at(k), mu(k)))
    return PS, mu, fs


def fold_congruence(S, fc, fs, n, name="cumprod-congruence"):
    """lemma: the code's running product equals the spec's (induction; needs pointwise factor equality)"""
    Fc, Fs = fc.fold("*"), fs.fold("*")
    if isinstance(n, int):
        return lambda i: True
    return S.induction(name, lambda k: xsame(Fc.at(k), Fs.at(k)), lo=0, hi=n)


@script(["C12", "C01"], "NonnegMean.alpha_mart/product-form", variants=(("finiteN",), ("infN",)))
def alpha_product(S, I, variant):
    mart_product(S, I, "alpha", variant[0] == "finiteN")


@script(["C12", "C01"], "NonnegMean.betting_mart/product-form", variants=(("finiteN",), ("infN",)))
def betting_product(S, I, variant):
    mart_product(S, I, "betting", variant[0] == "finiteN")


def mart_native(which, finiteN):
    return nn_native("alpha_mart" if which == "alpha" else "betting_mart", finiteN,
                     abstract={"estim": "eta"} if which == "alpha" else {"bet": "lam"})


def mart_product(S, I, which, finiteN):
    install_contracts(I)
    n, u, t, Nv, Nspec, x, par, self = mart_setup(S, I, which, finiteN)
    fn = I.get(MOD, "NonnegMean.alpha_mart" if which == "alpha" else "NonnegMean.betting_mart")
    I.trace.clear()
    r, exc = run_guard(S, I, fn, [self, x], native=mart_native(which, finiteN))
    if exc:
        return
    p, hist = r
    PS, mu, fs = mart_spec_arrays(which, n, u, t, Nspec, x, par)
    S.holds("len(hist)=n", icmp("==", hist.length, n))
    if isinstance(n, int):
        inst = lambda i: True
    else:
        cps = I.trace.get("cum*", [])
        if len(cps) != 1:
            S.holds("exactly-one-running-product", False)
            return
        inst = fold_congruence(S, cps[0], fs, n)
    T = fs.fold("*")
    Stot = PS.at(n)
    c = ctx()
    for j in indices(S, n, "j"):
        if isinstance(n, int):
            S.eq("hist[j]=min(1,1/T_j)+conventions", hist.at(j), mart_hist_spec(T.at(j + 1), mu(j), j, n, u, Nspec, t, Stot))
            continue
        if not inst(iadd(j, 1)):
            S.undecided("hist[j]=min(1,1/T_j)+conventions (running products lemma not discharged)")
            continue
        Fc = cps[0].fold("*")
        Tc, Ts, muj = Fc.at(iadd(j, 1)), T.at(iadd(j, 1)), mu(j)
        goal = xsame(hist.at(j), mart_hist_spec(Ts, muj, j, n, u, Nspec, t, Stot))
        hyps = list(c.pc) + S.base_facts + [xsame(Tc, Ts), z3.And(j >= 0, j < zi(n)), xr(Tc).wf(), xr(Ts).wf(),
                                            xr(muj).wf()]
        mulast = mu(isub(n, 1))     # the code re-reads the last entry; congruence (a tautology) links it to mu_j
        hyps.append(bimp(icmp("==", j, isub(n, 1)), xsame(muj, mulast)))
        hyps.append(xr(mulast).wf())
        S.prove_using("hist[j]=min(1,1/T_j)+conventions", goal, hyps, opaque=[muj, mulast])
        S.holds("wf(products, mu_j)", band(xr(Tc).wf(), xr(Ts).wf(), xr(muj).wf()))
    S.check_vacuity("alpha_product")


# ------------------------------------------------------------------ alpha_mart / betting_mart: well-formed p-values (C11)

def inside(mu, u):
    return band(mu.fin(), xcmp(">", mu, XR.const(0)), xcmp("<", mu, u))


def mono_lemma(S, x, n, u, t, Nspec):
    """lemma: the null mean cannot re-enter (0,u):  k >= 1 and 0 < mu_k < u  =>  0 < mu_{k-1} < u.
    Proved once at a fresh index from the definition of the partial sums only (modular: small NRA query)."""
    c = ctx()
    PS = x.fold("+")
    mu = lambda k: mu_spec(Nspec, t, PS, k)
    goal = lambda k: bimp(band(icmp(">=", k, 1), inside(mu(k), u)), inside(mu(isub(k, 1)), u))
    k0 = z3.Int(c.fresh("mono_k"))
    c.index_terms_add(k0)
    xk = x.at(mkint(isub(k0, 1)))
    hyps = [k0 >= 1, k0 < zi(n), zi(n) <= zi(iterm(Nspec)), xcmp(">", u, XR.const(0)), xcmp(">=", xk, XR.const(0)), xcmp("<=", xk, u),
            xsame(PS.at(k0), xadd(PS.at(mkint(isub(k0, 1))), xk))]      # definition of the running sum (ghost fold unfolding)
    r = S.prove_using("null-mean-monotone", goal(k0), hyps, opaque=[])
    ok = r.status == "proved"

    def inst(k):
        if ok:
            c.assume(bimp(band(icmp(">=", k, 0), icmp("<", k, n)), goal(zi(k))))
        return ok
    return inst


@script(["C11", "C01"], "NonnegMean.alpha_mart/well-formed", variants=(("finiteN",), ("infN",)))
def alpha_wf(S, I, variant):
    mart_wf(S, I, "alpha", variant[0] == "finiteN")


@script(["C11", "C01"], "NonnegMean.betting_mart/well-formed", variants=(("finiteN",), ("infN",)))
def betting_wf(S, I, variant):
    mart_wf(S, I, "betting", variant[0] == "finiteN")


def param_interface(S, which, n, u, t, Nspec, x, par):
    """interface contract of the field-held estimator / bet (what C13 proves of each shipped one):
    eta_k in [0,u];  lam_k >= 0 and lam_k * mu_k <= 1 wherever 0 < mu_k <= u.  Added as facts on access."""
    if which == "alpha":
        return
    PS = x.fold("+")
    old = par._elem if par.items is None else None
    c = ctx()
    if par.items is not None:
        for k, lam in enumerate(par.items):
            mu = mu_spec(Nspec, t, PS, k)
            ok = band(xcmp(">", mu, XR.const(0)), xcmp("<=", mu, u))
            c.assume(bimp(ok, band(xcmp(">=", lam, XR.const(0)), xcmp("<=", xmul(lam, mu), XR.const(1)))))
        return
    seen = set()

    def elem(i):
        lam = old(i)
        h = tid(zi(i))
        if h not in seen:
            seen.add(h)
            mu = mu_spec(Nspec, t, PS, i)
            ok = band(xcmp(">", mu, XR.const(0)), xcmp("<=", mu, u))
            ctx().assume(bimp(ok, band(xcmp(">=", lam, XR.const(0)), xcmp("<=", xmul(lam, mu), XR.const(1)))))
        return lam

    par._elem = elem


def mart_wf(S, I, which, finiteN):
    install_contracts(I)
    if which == "alpha":
        n, u, t, Nv, Nspec, x, par, self = mart_setup(S, I, which, finiteN, eta_lo=0, eta_hi=None)
        # eta in [0,u]
        c = ctx()
        if par.items is not None:
            for e in par.items:
                c.assume(xcmp("<=", e, u))
        else:
            old = par._elem
            par._elem = lambda i: (lambda e: (ctx().assume(xcmp("<=", e, u)), e)[1])(old(i))
    else:
        n, u, t, Nv, Nspec, x, par, self = mart_setup(S, I, which, finiteN)
        param_interface(S, which, n, u, t, Nspec, x, par)
    fn = I.get(MOD, "NonnegMean.alpha_mart" if which == "alpha" else "NonnegMean.betting_mart")
    I.trace.clear()
    c = ctx()
    c.trace.clear()
    r, exc = run_guard(S, I, fn, [self, x], native=mart_native(which, finiteN))
    if exc:
        return
    p, hist = r
    PS, mu, fs = mart_spec_arrays(which, n, u, t, Nspec, x, par)
    S.holds("len(hist)=n", icmp("==", hist.length, n))
    cps = I.trace.get("cum*", [])
    ext = [e for e in c.trace if e[0] == "extreme"]
    one, zero = XR.const(1), XR.const(0)

    def hist_ok_v(h):
        h = xr(h)
        return band(bnot(h.nan), xcmp(">=", h, zero), xcmp("<=", h, one))

    if isinstance(n, int):
        # concrete-length mode: everything is unfolded, state the property directly
        for j in range(n):
            S.holds("hist[j] in [0,1], not NaN", hist_ok_v(hist.at(j)))
            S.holds("p <= hist[j]", xcmp("<=", p, hist.at(j)))
        S.holds("p in [0,1], not NaN", hist_ok_v(p))
        S.holds("p = hist[w] for some w", bor(*[xsame(p, hist.at(j)) for j in range(n)]))
        return
    if len(cps) != 1 or len(ext) != 1 or ext[0][1] != "max":
        S.holds("one running product and one maximum over the history", False)
        return
    fc = cps[0]
    Fc = fc.fold("*")
    _, _, M, w, wn, terms = ext[0]
    # lemma M: the null mean cannot re-enter (0,u):  inside(mu_k) and k >= 1  =>  inside(mu_{k-1})
    if finiteN:
        mono = mono_lemma(S, x, n, u, t, Nspec)
    else:
        mono = lambda i: True

    # lemma Q (induction): inside(mu_{k-1})  =>  running product over the first k factors is finite and >= 0
    def Q(k):
        Fk = Fc.at(k)
        return bimp(band(icmp(">=", k, 1), inside(mu(isub(k, 1)), u)), band(Fk.fin(), rcmp(">=", Fk.v, 0)))

    # factor lemma (modular, proved once at a fresh index with the null mean opaque): inside(mu_k) => the k-th factor is finite and >= 0
    k0 = z3.Int(c.fresh("fl_k"))
    c.index_terms_add(k0)
    zero_ = XR.const(0)

    def fgoal(k):
        fk = xr(fc.at(k))
        return bimp(inside(mu(k), u), band(fk.fin(), rcmp(">=", fk.v, 0)))

    def fhyps(k):
        hy = [k >= 0, k < zi(n), xcmp(">", u, zero_), xcmp(">=", x.at(k), zero_), xcmp("<=", x.at(k), u), xr(mu(k)).wf()]
        pk = par.at(k)
        if which == "alpha":
            hy += [xcmp(">=", pk, zero_), xcmp("<=", pk, u)]
        else:
            hy += [bimp(band(xcmp(">", mu(k), zero_), xcmp("<=", mu(k), u)),
                        band(xcmp(">=", pk, zero_), xcmp("<=", xmul(pk, mu(k)), XR.const(1))))]
        return hy

    rfl = S.prove_using("factor finite and >= 0 while the null mean is inside (0,u)", fgoal(k0), fhyps(k0), opaque=[mu(k0)])

    def flem(k):
        if rfl.status == "proved":
            c.assume(bimp(band(icmp(">=", k, 0), icmp("<", k, n)), fgoal(zi(k))))

    instQ = induction_with(S, "product-finite-nonneg", Q, n, pre=lambda k: (mono(k), flem(k), flem(k - 1)))

    # lemma T: every entry handed to the final  min(1, 1/.)  is a non-NaN value in [0, +inf]
    def T_ok_v(T):
        T = xr(T)
        return band(bnot(T.nan), bnot(T.ninf), bimp(T.fin(), rcmp(">=", T.v, 0)))

    instT = S.forall_lemma("terms[i] in [0,+inf], not NaN", n, lambda i: (instQ(iadd(i, 1)), T_ok_v(terms.at(i)))[1])

    # structural links between the returned values and the masked running product `terms`
    j = indices(S, n, "j")[0]
    Tj, Tw, Twn = terms.at(j), terms.at(w), terms.at(wn)
    e_hist = lambda T: xminimum(one, xdiv_np(XR.const(1, npk=True), T))
    e_p = xmin_py(one, xdiv_np(XR.const(1, npk=True), M))
    l_hj = S.holds("hist[j] = minimum(1, 1/terms[j])", xsame(hist.at(j), e_hist(Tj)))
    l_hw = S.holds("hist[w] = minimum(1, 1/terms[w])", xsame(hist.at(w), e_hist(Tw)))
    l_p = S.holds("p = min(1, 1/max(terms))", xsame(p, e_p))
    if not (instT(j) and instT(w) and instT(wn)) or any(r.status != "proved" for r in (l_hj, l_hw, l_p)):
        S.undecided("p-value clauses (prerequisite lemmas not discharged)")
        return
    # contract of np.max (assumed, numpy model): NaN iff some entry NaN; else the maximum, attained at w
    inr = lambda i: band(icmp(">=", i, 0), icmp("<", i, n))
    maxfacts = [inr(w), inr(wn), inr(j), bimp(M.nan, xr(Twn).nan), bimp(bnot(M.nan), xsame(M, Tw)),
                bimp(xr(Tj).nan, M.nan), bimp(bnot(M.nan), xcmp(">=", M, Tj)), M.wf()]
    hyps = maxfacts + [T_ok_v(Tj), T_ok_v(Tw), T_ok_v(Twn), xr(Tj).wf(), xr(Tw).wf(), xr(Twn).wf(),
                       xsame(hist.at(j), e_hist(Tj)), xsame(hist.at(w), e_hist(Tw)), xsame(p, e_p)]
    opq = [Tj, Tw, Twn]
    S.prove_using("hist[j] in [0,1], not NaN", hist_ok_v(hist.at(j)), hyps, opq)
    S.prove_using("p in [0,1], not NaN", hist_ok_v(p), hyps, opq)
    S.prove_using("p <= hist[j]", xcmp("<=", p, hist.at(j)), hyps, opq)
    S.prove_using("p = hist[w] (minimum attained)", xsame(p, hist.at(w)), hyps, opq)
    S.holds("wf(terms)", band(xr(Tj).wf(), xr(Tw).wf(), xr(Twn).wf()))
    S.check_vacuity("mart_wf")


def induction_with(S, name, P, n, pre=None):
    """induction on k in [0, n] where `pre(k)` may add lemma instances for the induction variable"""
    c = ctx()
    base = P(z3.IntVal(0))
    rb = S.prove(name + ".base", base)
    k = z3.Int(c.fresh("ind_k"))
    if pre:
        pre(k)
        pre(k + 1)
    pk = P(k)
    pk1 = P(k + 1)
    rs = S.prove(name + ".step", pk1, extra=[k >= 0, k + 1 <= zi(n), zb(pk)])
    ok = rb.status == "proved" and rs.status == "proved"

    def inst(i):
        if ok:
            c.assume(bimp(band(icmp(">=", i, 0), icmp("<=", i, n)), P(zi(i))))
        return ok

    return inst


# ------------------------------------------------------------------ welford_mean_var (contract + loop invariant)

def welford_spec(x):
    """(mean, var): mean[k] = PS(k+1)/(k+1);  var[k] = M2(k)/(k+1) with M2 the running sum of
    inc(0) = 0, inc(k) = (x_k - mean[k-1]) (x_k - mean[k])   (Welford's recurrence, stated over the input only)"""
    if "welford" in x.ghost:
        return x.ghost["welford"]
    n = x.length
    PS = x.fold("+")
    mean = lambda k: xdiv_np(npx(PS.at(iadd(k, 1))), npx(XR.const(iadd(k, 1))))

    def inc(k):
        if isinstance(k, int) and k == 0:
            return XR.const(0, npk=True)
        xk = npx(x.at(k))
        v = xmul(xsub(xk, mean(isub(k, 1))), xsub(xk, mean(k)))
        return xite(icmp("==", k, 0), XR.const(0, npk=True), v) if not isinstance(k, int) else v

    incarr = mk_arr(n, inc)
    M2 = incarr.fold("+")
    var = lambda k: xdiv_np(npx(M2.at(iadd(k, 1))), npx(XR.const(iadd(k, 1))))
    x.ghost["welford"] = (mean, var, M2, incarr)
    return mean, var, M2, incarr


def contract_welford(I, fn, args, kwargs):
    """welford_mean_var(x): requires len(x) >= 1; ensures (mean, var) = welford_spec(x), both of length n"""
    from pyvc.npmodel import to_arr
    x = to_arr(I, args[0] if args else kwargs["x"])
    n = x.length
    c = ctx()
    if isinstance(n, int):
        if n == 0:
            raise PyRaise("IndexError", "index 0 is out of bounds for axis 0 with size 0")
    elif c.decide(icmp("<=", n, 0)):
        raise PyRaise("IndexError", "index 0 is out of bounds for axis 0 with size 0")
    mean, var, M2, incarr = welford_spec(x)
    return (mk_arr(n, mean), mk_arr(n, var))


class WelfordInvariant:
    """loop 0 of welford_mean_var:  for i, xi in enumerate(x[1:]).
    Invariant at the head of iteration i (0 <= i <= n-1): m, v are lists of length i+1 with
    m[k] = mean_spec(k), v[k] = M2_spec(k) for k <= i."""

    def __init__(self, S, x):
        self.S = S
        self.x = x

    def run_for(self, I, st, env, in_class):
        from pyvc.interp import CutPath
        S, x = self.S, self.x
        c = ctx()
        n = x.length
        mean, var, M2, incarr = welford_spec(x)
        # the loop state by role, not by name: two one-element lists (running means starting at x[0], running M2 starting at 0)
        lists = [k for k, val in env.vars.items() if isinstance(val, list) and len(val) == 1]
        zero = [k for k in lists if isinstance(env.vars[k][0], (int, XR)) and not isinstance(env.vars[k][0], bool)
                and (env.vars[k][0] == 0 if isinstance(env.vars[k][0], int) else (env.vars[k][0].is_const() and env.vars[k][0].v == 0))]
        if len(lists) != 2 or len(zero) != 1:
            raise NotApplicable("loop state of welford_mean_var not recognised (two one-element lists)")
        nv = zero[0]
        nm = [k for k in lists if k != nv][0]
        m, v = env.vars[nm], env.vars[nv]
        # the loop must run over the n-1 remaining observations; its variables are bound from the real iterable
        it = I.eval(st.iter, env)
        if not hasattr(it, "at") or not hasattr(it, "length"):
            raise NotApplicable("iterable of the welford loop is not a symbolic sequence")
        S.holds("welford loop runs once per remaining observation", icmp("==", it.length, isub(n, 1)))
        # (1) invariant holds on entry (i = 0): m = [x0], v = [0]
        S.holds("welford.inv.entry", band(len(m) == 1, len(v) == 1, xsame(xr(m[0]), mean(0)),
                                         xsame(xr(I.norm_scalar(v[0])), M2.at(1))))
        # (2) preservation at a symbolic iteration i
        mode = c.decide(z3.Bool(c.fresh("welford_branch_preserve")))
        if mode:
            i = z3.Int(c.fresh("wi"))
            c.assume(z3.And(i >= 0, i < zi(n) - 1))
            ml = SymArr(mkint(i + 1), lambda k: mean(k), "xr")
            vl = SymArr(mkint(i + 1), lambda k: npx(M2.at(iadd(k, 1))), "xr")
            ml.is_list = vl.is_list = True
            env.vars[nm], env.vars[nv] = ml, vl
            I.assign(st.target, it.at(i), env)
            run_loop_body(I, st, env, in_class)
            m2, v2 = env.vars[nm], env.vars[nv]
            S.holds("welford.inv.preserved.len", band(icmp("==", m2.length, i + 2), icmp("==", v2.length, i + 2)))
            S.eq("welford.inv.preserved.m", m2.at(i + 1), mean(i + 1))
            S.eq("welford.inv.preserved.v", v2.at(i + 1), M2.at(i + 2))
            kk = z3.Int(c.fresh("wk"))
            S.holds("welford.inv.frame", band(xsame(m2.at(kk), mean(kk)), xsame(v2.at(kk), M2.at(kk + 1))),
                    extra=[kk >= 0, kk <= i])
            raise CutPath()
        # (3) after the loop: invariant at i = n-1
        ml = SymArr(n, lambda k: mean(k), "xr")
        vl = SymArr(n, lambda k: npx(M2.at(iadd(k, 1))), "xr")
        ml.is_list = vl.is_list = True
        env.vars[nm], env.vars[nv] = ml, vl


@script(["C13", "C05", "C11", "C10"], "welford_mean_var/post")
def welford_post(S, I, variant):
    n = S.length("n", lo=1)
    u = S.real("u", lo_strict=0)
    x = S.array("x", n, 0, u)
    fn = I.get(MOD, "welford_mean_var")
    if not isinstance(n, int):
        I.invariants[("welford_mean_var", "for", 0)] = WelfordInvariant(S, x)
    from pyvc.interp import CutPath
    try:
        r, exc = run_guard(S, I, fn, [x], native={"kind": "module_function", "module": MOD,
                                                    "qual": "welford_mean_var", "args": ["x"]})
    except CutPath:
        return
    if exc:
        return
    mj, v = r
    mean, var, M2, incarr = welford_spec(x)
    S.holds("len", band(icmp("==", mj.length, n), icmp("==", v.length, n)))
    for k in indices(S, n, "k"):
        S.eq("mean[k]=PS(k+1)/(k+1)", mj.at(k), mean(k))
        S.eq("var[k]=M2(k)/(k+1)", v.at(k), var(k))


@script(["C13", "C11"], "welford_mean_var/variance-nonneg")
def welford_var_nonneg(S, I, variant):
    """lemma over the contract: every increment of M2 is >= 0 (so var >= 0 and sqrt is never NaN)"""
    n = S.length("n", lo=1)
    u = S.real("u", lo_strict=0)
    x = S.array("x", n, 0, u)
    mean, var, M2, incarr = welford_spec(x)
    if isinstance(n, int):
        for k in range(n):
            S.holds("var[k] >= 0", band(var(k).fin(), rcmp(">=", var(k).v, 0)))
        return
    inc_ok = S.forall_lemma("increment >= 0", n, lambda k: band(incarr.at(k).fin(), rcmp(">=", incarr.at(k).v, 0)))
    c = ctx()
    inst = induction_with(S, "M2 >= 0", lambda k: band(M2.at(k).fin(), rcmp(">=", M2.at(k).v, 0)), n,
                          pre=lambda k: inc_ok(k))
    for k in indices(S, n, "k"):
        inst(iadd(k, 1))
        S.holds("var[k] >= 0", band(var(k).fin(), rcmp(">=", var(k).v, 0)))


# ------------------------------------------------------------------ estimators

def est_self(S, I, n, u, t, Nv, extra):
    attrs = {"u": u, "N": Nv, "t": t}
    attrs.update(extra)
    return mk_self(I, attrs)


@script(["C12", "C05", "C01"], "NonnegMean.fixed_alternative_mean/post", variants=(("finiteN",), ("infN",)))
def fixed_alt_post(S, I, variant):
    finiteN = variant[0] == "finiteN"
    install_contracts(I)
    n, u, t, Nv, Nspec = base_regime(S, finiteN)
    eta = S.real("eta", lo_strict=t, hi_strict=u)
    x = S.array("x", n, 0, u)
    self = est_self(S, I, n, u, t, Nv, {"eta": eta})
    fn = I.get(MOD, "NonnegMean.fixed_alternative_mean")
    r, exc = run_guard(S, I, fn, [self, x], native=nn_native("fixed_alternative_mean", finiteN, attrs=("eta",)))
    if exc:
        return
    PS = x.fold("+")
    if not finiteN:
        S.eq("eta_j = eta (IID)", r, eta)
        S.holds("eta in [0,u]", band(xcmp(">=", r, XR.const(0)), xcmp("<=", r, u)))
        return
    S.holds("len", icmp("==", r.length, n))
    for k in indices(S, n, "k"):
        ek = r.at(k)
        S.eq("eta_k=(N eta-PS(k))/(N-k)", ek, mu_spec(Nspec, eta, PS, k))
        S.holds("eta_k > mu_k", xcmp(">", ek, mu_spec(Nspec, t, PS, k)))
        S.holds("eta_k finite", xr(ek).fin())


@script(["C13", "C01", "C11"], "NonnegMean.fixed_alternative_mean/range", variants=(("finiteN",),))
def fixed_alt_range(S, I, variant):
    install_contracts(I)
    n, u, t, Nv, Nspec = base_regime(S, True)
    eta = S.real("eta", lo_strict=t, hi_strict=u)
    x = S.array("x", n, 0, u)
    self = est_self(S, I, n, u, t, Nv, {"eta": eta})
    fn = I.get(MOD, "NonnegMean.fixed_alternative_mean")
    r, exc = run_guard(S, I, fn, [self, x], native=nn_native("fixed_alternative_mean", True, attrs=("eta",)))
    if exc:
        return
    PS = x.fold("+")
    for k in indices(S, n, "k"):
        ek = r.at(k)
        # K1 (known finding): eta_k leaves [0,u] once the sample contradicts the alternative
        S.known("K1", "eta_k in [0,u]", band(xcmp(">=", ek, XR.const(0)), xcmp("<=", ek, u)),
                carve=bnot(band(xcmp(">=", mu_spec(Nspec, eta, PS, k), XR.const(0)),
                                xcmp("<=", mu_spec(Nspec, eta, PS, k), u))))


@script(["C13", "C01"], "NonnegMean.optimal_comparison/post")
def optimal_comparison_post(S, I, variant):
    u = S.real("u", lo_strict=1)
    p2 = S.real("rate_error_2", lo=0, hi=1)
    n = S.length("n", lo=1)
    x = S.array("x", n, 0, u)
    self = mk_self(I, {"u": u, "rate_error_2": p2})
    fn = I.get(MOD, "NonnegMean.optimal_comparison")
    r, exc = run_guard(S, I, fn, [self, x], native={"kind": "nonneg_method", "method": "optimal_comparison",
                                                   "attrs": {"u": "u", "rate_error_2": "rate_error_2"}, "args": ["x"]})
    if exc:
        return
    one = XR.const(1)
    closed = xsub(u, xdiv_np(xmul(xmul(u, p2), xsub(xmul(XR.const(2), u), one)), xmul(XR.const(2), xsub(u, one))))
    S.eq("eta = u - u p2 (2u-1)/(2(u-1))", r, closed)
    S.holds("eta <= u", xcmp("<=", r, u))
    # K2 (known finding): eta < 0 when the margin is small against the assumed error rate
    thresh = xdiv_np(xmul(XR.const(2), xsub(u, one)), xsub(xmul(XR.const(2), u), one))
    S.known("K2", "eta >= 0", xcmp(">=", r, XR.const(0)), carve=xcmp(">", p2, thresh))


@script(["C13", "C01"], "NonnegMean.optimal_comparison/u=1")
def optimal_comparison_u1(S, I, variant):
    """K2b: at u = 1 (zero margin) the closed form divides by zero"""
    p2 = S.real("rate_error_2", lo=0, hi=1)
    n = S.length("n", lo=1)
    x = S.array("x", n, 0, XR.const(1))
    self = mk_self(I, {"u": XR.const(1), "rate_error_2": p2})
    fn = I.get(MOD, "NonnegMean.optimal_comparison")
    S.native_desc = {"kind": "nonneg_method", "method": "optimal_comparison",
                     "attrs": {"u": {"const": 1.0}, "rate_error_2": "rate_error_2"}, "args": ["x"]}
    if S.mode == "replay":
        S.known("K2", "no exception at u=1", bool(S.native_out.get("ok")), carve=True)
        return
    try:
        I.run(fn, [self, x])
        S.known("K2", "no exception at u=1", True, carve=True)
    except PyRaise as e:
        S.known("K2", "no exception at u=1", False, carve=True)


@script(["C13", "C01"], "NonnegMean.fixed_bet/post", variants=(("finiteN",), ("infN",)))
def fixed_bet_post(S, I, variant):
    finiteN = variant[0] == "finiteN"
    n, u, t, Nv, Nspec = base_regime(S, finiteN)
    lam = S.real("lam", lo=0)
    ctx().assume(xcmp("<=", xmul(lam, u), XR.const(1)))      # documented range: 0 <= lam <= 1/u
    x = S.array("x", n, 0, u)
    self = est_self(S, I, n, u, t, Nv, {"lam": lam})
    fn = I.get(MOD, "NonnegMean.fixed_bet")
    r, exc = run_guard(S, I, fn, [self, x], native=nn_native("fixed_bet", finiteN, attrs=("lam",)))
    if exc:
        return
    PS = x.fold("+")
    S.holds("len", icmp("==", r.length, n))
    for k in indices(S, n, "k"):
        lk = r.at(k)
        mu = mu_spec(Nspec, t, PS, k)
        S.eq("lam_k = lam", lk, lam)
        S.holds("0 <= lam_k and lam_k*mu_k <= 1 where 0 < mu_k <= u",
                bimp(band(xcmp(">", mu, XR.const(0)), xcmp("<=", mu, u)),
                     band(xcmp(">=", lk, XR.const(0)), xcmp("<=", xmul(lk, mu), XR.const(1)))))


# ------------------------------------------------------------------ non-anticipation (C05): relational obligations

def agree_prefix(S, name, x, k, n2, lo, hi):
    """a second sample of length n2 that agrees with x on indices < k (by construction) and is arbitrary afterwards"""
    y2 = S.array(name, n2, lo, hi)
    if y2.items is not None:
        kk = k if isinstance(k, int) else None
        items = [vite(icmp("<", i, k), x.at(i), y2.items[i]) if i < x.length else y2.items[i] for i in range(len(y2.items))] \
            if isinstance(x.length, int) else None
        return SymArr(0, kind="xr", items=items, name=name)
    return SymArr(n2, lambda i: fold_ite(icmp("<", i, k), x.at(i), y2.at(i)), "xr", name=name)


def prefix_sum_lemma(S, x, y, k, name="prefix-sums-agree"):
    """PS_x(i) = PS_y(i) for i <= k when x and y agree below k (induction)"""
    if x.items is not None:
        return lambda i: True
    Px, Py = x.fold("+"), y.fold("+")
    if Px is Py:
        return lambda i: True
    inst = scoped_induction(S, name, lambda i: xsame(Px.at(i), Py.at(i)), k)
    if inst(0):
        set_alias(Py, Px, k)      # proved: from now on PS_y(i) is read as PS_x(i) for 0 <= i <= k
    return inst


def relational_setup(S, I, finiteN, trunc):
    """x (length n) and y: either agreeing with x below k and continuing differently (NA1), or y = x[:k] (NA2)"""
    n = S.length("n", lo=2 if not trunc else 1)
    u = S.real("u", lo_strict=0)
    t = S.real("t", lo_strict=0, hi_strict=u)
    if finiteN:
        N = S.integer("N", lo=n)
        Nv, Nspec = N, N
    else:
        Nv, Nspec = INF, None
    x = S.array("x", n, 0, u)
    if S.mode == "replay":
        k = S.length("k")
    elif isinstance(n, int):
        k = max(1, n - 1)
        S._rec("k", k)
    else:
        k = z3.Int("k")
        ctx().assume(z3.And(k >= 1, k < n if not trunc else k <= n))
        S._rec("k", k)
    if trunc:
        from pyvc.npmodel import arr_getitem
        y = arr_getitem(I, x, slice(0, mkint(k), None))
        ny = k
    else:
        ny = S.length("n2", lo=2)
        if isinstance(ny, int):
            if not (k < ny):
                raise PathInfeasible()
        else:
            ctx().assume(ny > zi(k))
            if finiteN:
                ctx().assume(zi(iterm(Nv)) >= ny)
        y = agree_prefix(S, "y", x, k, ny, 0, u)
    return n, ny, k, u, t, Nv, Nspec, x, y


def rel_param(S, name, n, ny, k, upto_incl):
    """abstract predictable parameter sequences for the two runs: equal on indices <= k (resp. < k)"""
    px = S.array(name, n)
    p2 = S.array(name + "2", ny)
    lim = iadd(k, 1) if upto_incl else k
    if p2.items is not None:
        items = [vite(icmp("<", i, lim), px.at(i), p2.items[i]) if i < px.length else p2.items[i] for i in range(len(p2.items))]
        py = SymArr(0, kind="xr", items=items)
    else:
        py = SymArr(ny, lambda i: fold_ite(icmp("<", i, lim), px.at(i), p2.at(i)), "xr")
    return px, py


def rel_native(method, finiteN, arrname, abstract_role=None, parname=None, attrs=()):
    d = nn_native(method, finiteN, attrs=attrs, args=(arrname,))
    if abstract_role:
        d["abstract"] = {abstract_role: parname}
    return d


@script(["C05", "C01", "C10"], "NonnegMean.alpha_mart/non-anticipation", variants=(("finiteN", "NA1"), ("infN", "NA1"), ("finiteN", "NA2"), ("infN", "NA2")))
def alpha_na(S, I, variant):
    mart_na(S, I, "alpha", variant[0] == "finiteN", variant[1] == "NA2")


@script(["C05", "C01", "C10"], "NonnegMean.betting_mart/non-anticipation", variants=(("finiteN", "NA1"), ("infN", "NA1"), ("finiteN", "NA2"), ("infN", "NA2")))
def betting_na(S, I, variant):
    mart_na(S, I, "betting", variant[0] == "finiteN", variant[1] == "NA2")


def two_runs(S, I, fn, mk_self_x, mk_self_y, x, y, native_x, native_y):
    """run the same real function on the two related samples; replay mode: two native runs"""
    if S.mode == "replay":
        outs = S.native_out if isinstance(S.native_out, list) else [S.native_out, S.native_out]
        S.native_desc = [native_x, native_y]
        res = []
        for o in outs:
            if not o.get("ok"):
                S.holds("no-exception:" + o.get("exception", "?"), False)
                return None
            res.append(from_native(o["value"]))
        return res[0], res[1], None, None
    S.native_desc = [native_x, native_y]
    I.trace.clear()
    try:
        rx = I.run(fn, [mk_self_x(), x])
        tx = dict(I.trace)
        I.trace.clear()
        ry = I.run(fn, [mk_self_y(), y])
        ty = dict(I.trace)
    except PyRaise as e:
        S.holds("no-exception:" + e.exc_type + ":" + e.msg[:40], False)
        return None
    return rx, ry, tx, ty


def product_agree_lemma(S, tx, ty, k, pre, name="running-products-agree"):
    cx, cy = tx.get("cum*", []), ty.get("cum*", [])
    if len(cx) != 1 or len(cy) != 1:
        S.holds("exactly-one-running-product", False)
        return None
    Fx, Fy = cx[0].fold("*"), cy[0].fold("*")
    inst = scoped_induction(S, name, lambda i: xsame(Fx.at(i), Fy.at(i)), k, pre=pre)
    if inst(0):
        set_alias(Fy, Fx, k)
    return inst


def scoped_induction(S, name, P, hi, pre=None):
    """forall 0 <= i <= hi. P(i) by induction; the step's hypotheses (0 <= i, i+1 <= hi, P(i)) are scoped facts, so
    conditionals depending on them are resolved while the step's terms are built"""
    c = ctx()
    rb = S.prove(name + ".base", P(z3.IntVal(0)))
    i = z3.Int(c.fresh("ind_i"))
    with c.scope():
        c.assume(z3.And(i >= 0, i + 1 <= zi(hi)))
        if pre:
            pre(i)
            pre(i + 1)
        pi = P(i)
        c.assume(pi)
        rs = S.prove(name + ".step", P(i + 1))
    ok = rb.status == "proved" and rs.status == "proved"

    def inst(j):
        if ok:
            # state the instance over the un-aliased ghost terms (values read eagerly before an alias was installed
            # still mention them)
            ALIAS_ON[0] = False
            EPOCH[0] += 1
            try:
                c.assume(bimp(band(icmp(">=", j, 0), icmp("<=", j, hi)), P(zi(j))))
            finally:
                ALIAS_ON[0] = True
                EPOCH[0] += 1
        return ok
    return inst


def mart_na(S, I, which, finiteN, trunc):
    install_contracts(I)
    n, ny, k, u, t, Nv, Nspec, x, y = relational_setup(S, I, finiteN, trunc)
    pname = "eta" if which == "alpha" else "lam"
    if trunc:
        px = S.array(pname, n)
        from pyvc.npmodel import arr_getitem
        py = arr_getitem(I, px, slice(0, mkint(k), None))
        S._rec(pname + "2", py)
    else:
        px, py = rel_param(S, pname, n, ny, k, upto_incl=False)
    role = "estim" if which == "alpha" else "bet"
    mk = lambda par: (lambda: mk_self(I, {"u": u, "N": Nv, "t": t, role: abstract_vec(par)}))
    meth = "alpha_mart" if which == "alpha" else "betting_mart"
    fn = I.get(MOD, "NonnegMean." + meth)
    r = two_runs(S, I, fn, mk(px), mk(py), x, y,
                 rel_native(meth, finiteN, "x", role, pname), rel_native(meth, finiteN, "y" if not trunc else "x[:k]", role, pname + "2"))
    if r is None:
        return
    (p_x, h_x), (p_y, h_y), tx, ty = r
    S.holds("len(hist_y)", icmp("==", h_y.length, ny))
    if isinstance(n, int):
        kk = k
        for j in range(kk if not trunc else kk - 1):
            S.eq("hist_x[j]=hist_y[j] (j<k)", h_x.at(j), h_y.at(j))
        if trunc:
            PSx = x.fold("+")
            exceeds = False if Nspec is None else xcmp(">", PSx.at(kk), xmul(XR.const(Nspec), t))
            S.holds("truncation: last entry equal, or total exceeds N t and entry is 0",
                    bor(xsame(h_x.at(kk - 1), h_y.at(kk - 1)), band(exceeds, xsame(h_y.at(kk - 1), XR.const(0)))))
        return
    instA = prefix_sum_lemma(S, x, y, k)
    instB = product_agree_lemma(S, tx, ty, k, pre=lambda i: instA(i))
    if instB is None:
        return
    from pyvc.spec import skolem
    j = skolem("j", k)
    instA(j)
    instA(j + 1)
    instB(j + 1)
    if not trunc:
        S.eq("hist_x[j]=hist_y[j] (j<k)", h_x.at(j), h_y.at(j))
    else:
        S.eq("hist_x[j]=hist_y[j] (j<k-1)", h_x.at(j), h_y.at(j), extra=[j < zi(k) - 1])
        instA(k)
        instA(zi(k) - 1)
        instB(k)
        PSx = x.fold("+")
        exceeds = False if Nspec is None else xcmp(">", PSx.at(k), xmul(XR.const(Nspec), t))
        S.holds("truncation: total exceeds N t => last entry of the truncated history is 0",
                xsame(h_y.at(zi(k) - 1), XR.const(0)), extra=[zb(exceeds)])
        S.holds("truncation: otherwise the last entry is unchanged",
                xsame(h_x.at(zi(k) - 1), h_y.at(zi(k) - 1)), extra=[zb(bnot(exceeds))])
    S.check_vacuity("mart_na")


# ------------------------------------------------------------------ shrink_trunc

def install_welford(I):
    I.contracts["welford_mean_var"] = contract_welford


def m2_nonneg_lemma(S, x, n):
    """lemma over the Welford spec: M2(k) is finite and >= 0 (so var >= 0, sqrt never NaN)"""
    mean, var, M2, incarr = welford_spec(x)
    if isinstance(n, int):
        return lambda i: True
    inc_ok = S.forall_lemma("welford increment >= 0", n, lambda k: band(incarr.at(k).fin(), rcmp(">=", incarr.at(k).v, 0)))
    return induction_with(S, "M2 >= 0", lambda k: band(M2.at(k).fin(), rcmp(">=", M2.at(k).v, 0)), n, pre=lambda k: inc_ok(k))


def shrink_params(S):
    c_ = S.real("c", lo_strict=0)
    d = S.real("d", lo_strict=0)
    f = S.real("f", lo=0)
    minsd = S.real("minsd", lo_strict=0)
    return c_, d, f, minsd


def shrink_spec(x, k, u, t, Nspec, eta0, c_, d, f, minsd):
    """eta_k per the documented definition (0-based k)"""
    PS = x.fold("+")
    mean, var, M2, incarr = welford_spec(x)
    one = XR.const(1, npk=True)
    kk = XR.const(k, npk=True) if not isinstance(k, int) else XR.const(k, npk=True)
    if isinstance(k, int):
        sd = one if k < 2 else xmaximum(xsqrt(var(k - 1)), minsd)
    else:
        sd = xite(icmp("<", k, 2), one, xmaximum(xsqrt(var(isub(k, 1))), minsd))
    dk = xadd(npx(d), kk)
    A = xdiv_np(xadd(xmul(npx(d), eta0), PS.at(k)), dk)
    w = xdiv_np(xadd(A, xdiv_np(xmul(npx(u), f), sd)), xadd(one, xdiv_np(npx(f), sd)))
    mu = mu_spec(Nspec, t, PS, k)
    low = xadd(mu, xdiv_np(npx(c_), xsqrt(dk)))
    cap = xmul(npx(u), xsub(one, XR.const(EPS, npk=True)))
    return xminimum(cap, xmaximum(w, low)), mu, cap


def shrink_native(finiteN):
    return nn_native("shrink_trunc", finiteN, attrs=("eta", "c", "d", "f", "minsd"))


@script(["C13", "C12", "C01", "C11"], "NonnegMean.shrink_trunc/post+range", variants=(("finiteN",), ("infN",)))
def shrink_post(S, I, variant):
    finiteN = variant[0] == "finiteN"
    install_contracts(I)
    install_welford(I)
    n, u, t, Nv, Nspec = base_regime(S, finiteN)
    eta0 = S.real("eta", lo_strict=t, hi_strict=u)
    c_, d, f, minsd = shrink_params(S)
    x = S.array("x", n, 0, u)
    self = est_self(S, I, n, u, t, Nv, {"eta": eta0, "c": c_, "d": d, "f": f, "minsd": minsd})
    fn = I.get(MOD, "NonnegMean.shrink_trunc")
    r, exc = run_guard(S, I, fn, [self, x], native=shrink_native(finiteN))
    if exc:
        return
    S.holds("len", icmp("==", r.length, n))
    instM = m2_nonneg_lemma(S, x, n)
    zero = XR.const(0)
    for k in indices(S, n, "k"):
        instM(k)
        instM(iadd(k, 1))
        ek = r.at(k)
        spec, mu, cap = shrink_spec(x, k, u, t, Nspec, eta0, c_, d, f, minsd)
        S.eq("eta_k = min(u(1-eps), max(weighted_k, mu_k + c/sqrt(d+k)))", ek, spec)
        r_ = S.holds("eta_k in [0,u), not NaN", band(xr(ek).fin(), xcmp(">=", ek, zero), xcmp("<", ek, u)))
        if hasattr(r_, "status"):
            r_.props = ["C13", "C11", "C01"]
        # K6 (known finding): on the knife edge u(1-eps) <= mu_k < u the estimate is not above mu_k
        S.known("K6", "eta_k > mu_k whenever mu_k < u", bimp(xcmp("<", mu, u), xcmp(">", ek, mu)),
                carve=xcmp(">=", mu, cap), props=["C13", "C01"])


@script(["C05", "C01", "C10"], "NonnegMean.shrink_trunc/predictable", variants=(("finiteN",), ("infN",)))
def shrink_na(S, I, variant):
    finiteN = variant[0] == "finiteN"
    install_contracts(I)
    install_welford(I)
    n, ny, k, u, t, Nv, Nspec, x, y = relational_setup(S, I, finiteN, False)
    eta0 = S.real("eta", lo_strict=t, hi_strict=u)
    c_, d, f, minsd = shrink_params(S)
    mk = lambda: mk_self(I, {"u": u, "N": Nv, "t": t, "eta": eta0, "c": c_, "d": d, "f": f, "minsd": minsd})
    fn = I.get(MOD, "NonnegMean.shrink_trunc")
    nat = lambda a: nn_native("shrink_trunc", finiteN, attrs=("eta", "c", "d", "f", "minsd"), args=(a,))
    r = two_runs(S, I, fn, mk, mk, x, y, nat("x"), nat("y"))
    if r is None:
        return
    ex, ey, _, _ = r
    estimator_na_goals(S, x, y, k, n, ex, ey)


def estimator_na_goals(S, x, y, k, n, ex, ey):
    """entry j of the estimate / bet is unaffected by any change to observations j, j+1, ...  (j <= k)"""
    if isinstance(n, int):
        for j in range(k + 1):
            S.eq("est_x[j]=est_y[j] (j<=k)", ex.at(j), ey.at(j))
        return
    instA = prefix_sum_lemma(S, x, y, k)
    mx, vx, M2x, incx = welford_spec(x)
    my, vy, M2y, incy = welford_spec(y)
    # running M2 agree up to k (entry i of the increments uses x_0..x_i)
    instV = scoped_induction(S, "welford-M2-agree", lambda i: xsame(M2x.at(i), M2y.at(i)), k,
                             pre=lambda i: (instA(i), instA(i + 1), instA(i - 1)))
    c = ctx()
    j = z3.Int(c.fresh("j"))
    c.assume(z3.And(j >= 0, j <= zi(k)))
    c.index_terms_add(j)
    for q in (j, j - 1, j + 1):
        instA(q)
        instV(q)
    instV(j - 2)
    instA(j - 2)
    S.eq("est_x[j]=est_y[j] (j<=k)", ex.at(j), ey.at(j))
    S.check_vacuity("estimator_na")


# ------------------------------------------------------------------ agrapa

def agrapa_params(S):
    lam = S.real("lam", lo=0)
    c0 = S.real("c_grapa_0", lo_strict=0, hi_strict=1)
    cm = S.real("c_grapa_max", lo=c0, hi_strict=1)
    cg = S.real("c_grapa_grow", lo=0)
    return lam, c0, cm, cg


def agrapa_spec(x, k, u, t, Nspec, lam, c0, cm, cg):
    PS = x.fold("+")
    mean, var, M2, incarr = welford_spec(x)
    one = XR.const(1, npk=True)
    mu = mu_spec(Nspec, t, PS, k)
    kk = XR.const(k, npk=True)
    ck = xadd(npx(c0), xmul(xsub(npx(cm), npx(c0)), xsub(one, xdiv_np(one, xadd(one, xmul(npx(cg), xsqrt(kk)))))))

    def raw(i):
        mu_i = mu_spec(Nspec, t, PS, i)
        num = xsub(mean(i), mu_i)
        dif = xsub(mu_i, mean(i))
        den = xadd(var(i), xmul(dif, dif))
        return xdiv_np(num, den), num, den

    if isinstance(k, int):
        r = npx(lam) if k == 0 else raw(k - 1)[0]
        num, den = (None, None) if k == 0 else raw(k - 1)[1:]
    else:
        rw, num, den = raw(isub(k, 1))
        r = xite(icmp("==", k, 0), npx(lam), rw)
    val = xmaximum(XR.const(0, npk=True), xminimum(xdiv_np(ck, mu), r))
    nan_case = False if (isinstance(k, int) and k == 0) else band(bnot(icmp("==", k, 0)), den.zero(), num.zero())
    return val, mu, ck, nan_case


@script(["C13", "C12", "C01", "C11"], "NonnegMean.agrapa/post+range", variants=(("finiteN",), ("infN",)))
def agrapa_post(S, I, variant):
    finiteN = variant[0] == "finiteN"
    install_welford(I)
    n, u, t, Nv, Nspec = base_regime(S, finiteN)
    lam, c0, cm, cg = agrapa_params(S)
    x = S.array("x", n, 0, u)
    self = est_self(S, I, n, u, t, Nv, {"lam": lam, "c_grapa_0": c0, "c_grapa_max": cm, "c_grapa_grow": cg})
    fn = I.get(MOD, "NonnegMean.agrapa")
    r, exc = run_guard(S, I, fn, [self, x], native=nn_native("agrapa", finiteN, attrs=("lam", "c_grapa_0", "c_grapa_max", "c_grapa_grow")))
    if exc:
        return
    S.holds("len", icmp("==", r.length, n))
    instM = m2_nonneg_lemma(S, x, n)
    zero = XR.const(0)
    for k in indices(S, n, "k"):
        instM(k)
        instM(iadd(k, 1))
        lk = r.at(k)
        spec, mu, ck, nan_case = agrapa_spec(x, k, u, t, Nspec, lam, c0, cm, cg)
        S.eq("lam_k = max(0, min(c_k/mu_k, raw_{k-1}))", lk, spec)
        r_ = S.holds("c_k in [c_0, c_max]", band(xcmp(">=", ck, c0), xcmp("<=", ck, cm)))
        if hasattr(r_, "status"):
            r_.props = ["C13", "C01"]
        ok_mu = band(xcmp(">", mu, zero), xcmp("<=", mu, u))
        # K3 (known finding): the bet is NaN (0/0) when the running mean equals the null mean with zero variance
        S.known("K3", "0 <= lam_k and lam_k*mu_k <= c_k < 1 where 0 < mu_k <= u, not NaN",
                bimp(ok_mu, band(xr(lk).fin(), xcmp(">=", lk, zero), xcmp("<=", xmul(lk, mu), ck))), carve=nan_case,
                props=["C13", "C11", "C01"])


@script(["C05", "C01", "C10"], "NonnegMean.agrapa/predictable", variants=(("finiteN",), ("infN",)))
def agrapa_na(S, I, variant):
    finiteN = variant[0] == "finiteN"
    install_welford(I)
    n, ny, k, u, t, Nv, Nspec, x, y = relational_setup(S, I, finiteN, False)
    lam, c0, cm, cg = agrapa_params(S)
    attrs = ("lam", "c_grapa_0", "c_grapa_max", "c_grapa_grow")
    mk = lambda: mk_self(I, {"u": u, "N": Nv, "t": t, "lam": lam, "c_grapa_0": c0, "c_grapa_max": cm, "c_grapa_grow": cg})
    fn = I.get(MOD, "NonnegMean.agrapa")
    nat = lambda a: nn_native("agrapa", finiteN, attrs=attrs, args=(a,))
    r = two_runs(S, I, fn, mk, mk, x, y, nat("x"), nat("y"))
    if r is None:
        return
    ex, ey, _, _ = r
    estimator_na_goals(S, x, y, k, n, ex, ey)


# ------------------------------------------------------------------ Kaplan-Kolmogorov / Kaplan-Markov / Kaplan-Wald / SPRT

def sum_shift_lemma(S, x, xg, g, n):
    """PS_{x+g}(i) = PS_x(i) + i g   (induction)"""
    if x.items is not None:
        return lambda i: True
    Px, Pg = x.fold("+"), xg.fold("+")
    return S.induction("sum(x+g) = sum(x) + i g", lambda i: xsame(Pg.at(i), xadd(Px.at(i), xmul(XR.const(i), g))), lo=0, hi=n)


def hist_ok_v(h):
    h = xr(h)
    return band(bnot(h.nan), xcmp(">=", h, XR.const(0)), xcmp("<=", h, XR.const(1)))


def p_clauses(S, p, hist, n, random_order, ext_kind="max"):
    """overall p-value vs history: min over the history when random_order, else the last entry (C11)"""
    c = ctx()
    if isinstance(n, int):
        S.holds("p in [0,1], not NaN", hist_ok_v(p))
        if random_order:
            for j in range(n):
                S.holds("p <= hist[j]", xcmp("<=", p, hist.at(j)))
            S.holds("p = hist[w] for some w", bor(*[xsame(p, hist.at(j)) for j in range(n)]))
        else:
            S.eq("p = hist[last]", p, hist.at(n - 1))
        return None
    return True


@script(["C12", "C01", "C05"], "NonnegMean.kaplan_kolmogorov/product-form")
def kk_product(S, I, variant):
    install_contracts(I)
    n, u, t, Nv, Nspec = base_regime(S, True)
    g = S.real("g", lo=0, hi_strict=1)
    x = S.array("x", n, 0, u)
    ro = S.boolean("random_order")
    self = mk_self(I, {"u": u, "N": Nv, "t": t, "g": g, "random_order": ro})
    fn = I.get(MOD, "NonnegMean.kaplan_kolmogorov")
    I.trace.clear()
    r, exc = run_guard(S, I, fn, [self, x], native=nn_native("kaplan_kolmogorov", True, attrs=("g", "random_order")))
    if exc:
        return
    p, hist = r
    PS = x.fold("+")
    mu = lambda k: mu_spec(Nspec, t, PS, k)
    fs = mk_arr(n, lambda k: xdiv_np(xadd(npx(x.at(k)), g), xadd(mu(k), g)))
    S.holds("len(hist)=n", icmp("==", hist.length, n))
    one = XR.const(1, npk=True)

    def spec(j, T):
        v = xminimum(xdiv_np(one, T), one)
        return xite(xcmp("<", xadd(mu(j), g), XR.const(0)), XR.const(0, npk=True), v)

    T = fs.fold("*")
    if isinstance(n, int):
        for j in range(n):
            S.eq("hist[j]=min(1,1/prod (x_i+g)/(mu_i+g)); 0 where mu_j+g<0", hist.at(j), spec(j, T.at(j + 1)))
        return
    cps, cs = I.trace.get("cum*", []), I.trace.get("sjm_x", [])
    if len(cps) != 1 or len(cs) != 1:
        S.holds("one running product, one running sum", False)
        return
    shift = sum_shift_lemma(S, x, cs[0], g, n)
    # pointwise: the code's null mean of the padded data is mu_k + g  (modular NRA fact from the shift lemma's instance)
    c = ctx()
    PSg = cs[0].fold("+")
    tg = xadd(npx(t), g)
    mcode = lambda k: mu_spec(Nspec, tg, PSg, k)
    k0 = z3.Int(c.fresh("kq"))
    c.index_terms_add(k0)
    ident = lambda k: xsame(mcode(k), xadd(mu(k), g))
    rid = S.prove_using("padded null mean = mu_k + g", ident(k0),
                        [k0 >= 0, k0 < zi(n), zi(n) <= zi(iterm(Nspec)), xsame(PSg.at(k0), xadd(PS.at(k0), xmul(XR.const(k0), g)))], opaque=[])

    def pre(k):
        shift(k)
        if rid.status == "proved":
            c.assume(bimp(band(icmp(">=", k, 0), icmp("<", k, n)), ident(zi(k))))

    instF = scoped_induction(S, "running-products-agree", lambda i: xsame(cps[0].fold("*").at(i), T.at(i)), n,
                             pre=lambda i: (pre(i), pre(i + 1)))
    for j in indices(S, n, "j"):
        pre(j)
        pre(j + 1)
        instF(j + 1)
        S.eq("hist[j]=min(1,1/prod (x_i+g)/(mu_i+g)); 0 where mu_j+g<0", hist.at(j), spec(j, T.at(j + 1)))
    S.check_vacuity("kk")


@script(["C12", "C01", "C05"], "NonnegMean.kaplan_markov/product-form")
def km_product(S, I, variant):
    n = S.length("n", lo=1)
    u = S.real("u", lo_strict=0)
    t = S.real("t", lo_strict=0, hi_strict=u)
    g = S.real("g", lo=0)
    x = S.array("x", n, 0, u)
    ro = S.boolean("random_order")
    self = mk_self(I, {"u": u, "N": INF, "t": t, "g": g, "random_order": ro})
    fn = I.get(MOD, "NonnegMean.kaplan_markov")
    I.trace.clear()
    ctx().trace.clear()
    r, exc = run_guard(S, I, fn, [self, x], native=nn_native("kaplan_markov", False, attrs=("g", "random_order")))
    if exc:
        return
    p, hist = r
    fs = mk_arr(n, lambda k: xdiv_np(xadd(npx(t), g), xadd(npx(x.at(k)), g)))
    Q = fs.fold("*")
    one = XR.const(1, npk=True)
    S.holds("len(hist)=n", icmp("==", hist.length, n))
    if isinstance(n, int):
        for j in range(n):
            S.eq("hist[j]=min(1, prod (t+g)/(x_i+g))", hist.at(j), xminimum(Q.at(j + 1), one))
        return
    cps = I.trace.get("cum*", [])
    if len(cps) != 1:
        S.holds("one running product", False)
        return
    instF = scoped_induction(S, "running-products-agree", lambda i: xsame(cps[0].fold("*").at(i), Q.at(i)), n)
    for j in indices(S, n, "j"):
        instF(j + 1)
        S.eq("hist[j]=min(1, prod (t+g)/(x_i+g))", hist.at(j), xminimum(Q.at(j + 1), one))


@script(["C12", "C01", "C05"], "NonnegMean.kaplan_wald/product-form")
def kw_product(S, I, variant):
    n = S.length("n", lo=1)
    u = S.real("u", lo_strict=0)
    t = S.real("t", lo_strict=0, hi_strict=u)
    g = S.real("g", lo=0, hi=1)
    x = S.array("x", n, 0, u)
    ro = S.boolean("random_order")
    self = mk_self(I, {"u": u, "N": INF, "t": t, "g": g, "random_order": ro})
    fn = I.get(MOD, "NonnegMean.kaplan_wald")
    I.trace.clear()
    r, exc = run_guard(S, I, fn, [self, x], native=nn_native("kaplan_wald", False, attrs=("g", "random_order")))
    if exc:
        return
    p, hist = r
    one = XR.const(1, npk=True)
    fs = mk_arr(n, lambda k: xadd(xdiv_np(xmul(xsub(one, g), npx(x.at(k))), npx(t)), g))
    T = fs.fold("*")
    S.holds("len(hist)=n", icmp("==", hist.length, n))
    if isinstance(n, int):
        for j in range(n):
            S.eq("hist[j]=min(1, 1/prod ((1-g)x_i/t+g))", hist.at(j), xminimum(xdiv_np(one, T.at(j + 1)), one))
        return
    cps = I.trace.get("cum*", [])
    if len(cps) != 1:
        S.holds("one running product", False)
        return
    instF = scoped_induction(S, "running-products-agree", lambda i: xsame(cps[0].fold("*").at(i), T.at(i)), n)
    for j in indices(S, n, "j"):
        instF(j + 1)
        S.eq("hist[j]=min(1, 1/prod ((1-g)x_i/t+g))", hist.at(j), xminimum(xdiv_np(one, T.at(j + 1)), one))


@script(["C12", "C01", "C05"], "NonnegMean.wald_sprt/product-form", variants=(("finiteN",), ("infN",)))
def sprt_product(S, I, variant):
    finiteN = variant[0] == "finiteN"
    n, u, t, Nv, Nspec = base_regime(S, finiteN)
    eta = S.real("eta", lo_strict=t, hi_strict=u)
    x = S.array("x", n, 0, u)
    self = mk_self(I, {"u": u, "N": Nv, "t": t, "eta": eta, "random_order": True})
    fn = I.get(MOD, "NonnegMean.wald_sprt")
    I.trace.clear()
    r, exc = run_guard(S, I, fn, [self, x], native=nn_native("wald_sprt", finiteN, attrs=("eta",)))
    if exc:
        return
    p, hist = r
    PS = x.fold("+")
    mu = lambda k: mu_spec(Nspec, t, PS, k)
    etak = lambda k: mu_spec(Nspec, eta, PS, k)
    fs = mk_arr(n, lambda k: alpha_factor(x.at(k), etak(k), mu(k), u))
    T = fs.fold("*")
    one = XR.const(1, npk=True)
    S.holds("len(hist)=n", icmp("==", hist.length, n))

    def spec(j, Tj):
        v = xminimum(one, xdiv_np(one, Tj))
        if finiteN:
            v = xite(xcmp("<", mu(j), XR.const(0)), XR.const(0, npk=True), v)
        return v

    if isinstance(n, int):
        for j in range(n):
            S.eq("hist[j]=min(1,1/T_j), T_j = prod of the SPRT factors with eta_i=(N eta-S_i)/(N-i)", hist.at(j), spec(j, T.at(j + 1)))
        return
    cps = I.trace.get("cum*", [])
    if len(cps) != 1:
        S.holds("exactly one running product (the statistic must not be compounded twice)", False)
        return
    instF = scoped_induction(S, "running-products-agree", lambda i: xsame(cps[0].fold("*").at(i), T.at(i)), n)
    for j in indices(S, n, "j"):
        instF(j + 1)
        S.eq("hist[j]=min(1,1/T_j), T_j = prod of the SPRT factors with eta_i=(N eta-S_i)/(N-i)", hist.at(j), spec(j, T.at(j + 1)))


# ------------------------------------------------------------------ well-formed p-values for the Kaplan tests and the SPRT (C11)

def generic_wf(S, I, fn, self, x, n, native, factor_ok, hist_of, p_of, agg, ro, entry_ok=None, pre_Q=None, extra_inst=None,
               Qpred=None, known=None, known_clauses=("hist[j] in [0,1], not NaN", "p in [0,1], not NaN"), factor_lemma=None):
    """shared shape: terms = cumprod(f) [+ overrides]; hist = hist_of(terms); p = p_of(extreme(terms) | terms[-1]).
    factor_ok(k, Fk) : invariant on the running product over the first k factors (proved by induction);
    entry_ok(T)      : what is needed of every entry of `terms` (after overrides) for a well-formed history."""
    I.trace.clear()
    c = ctx()
    c.trace.clear()
    r, exc = run_guard(S, I, fn, [self, x], native=native)
    if exc:
        return
    p, hist = r
    hold = (lambda nm, g: S.known(known, nm, g)) if known else S.holds
    S.holds("len(hist)=n", icmp("==", hist.length, n))
    if isinstance(n, int):
        for j in range(n):
            hold("hist[j] in [0,1], not NaN", hist_ok_v(hist.at(j)))
        hold("p in [0,1], not NaN", hist_ok_v(p))
        if c.decide(bterm(ro)) if not isinstance(ro, bool) else ro:
            for j in range(n):
                hold("p <= hist[j] (random order)", xcmp("<=", p, hist.at(j)))
            hold("p = hist[w] for some w (random order)", bor(*[xsame(p, hist.at(j)) for j in range(n)]))
        else:
            hold("p = hist[last] (not random order)", xsame(p, hist.at(n - 1)))
        return
    if known:
        for nm in known_clauses:
            S.expected_fail(known, nm)
        return
    cps = I.trace.get("cum*", [])
    if len(cps) != 1:
        S.holds("exactly one running product", False)
        return
    Fc = cps[0].fold("*")
    if factor_lemma is not None:
        # a fact about the single factor f_k, proved once at a fresh index from the listed hypotheses only (modular), then
        # instantiated wherever the running-product invariant is unfolded
        goal_f, hyps_f, opq_f = factor_lemma
        k0 = z3.Int(c.fresh("fl_k"))
        c.index_terms_add(k0)
        rfl = S.prove_using("factor lemma", goal_f(k0, cps[0].at(k0)), [k0 >= 0, k0 < zi(n)] + hyps_f(k0), opaque=opq_f(k0))
        old_pre = pre_Q

        def pre_Q(k, old_pre=old_pre):
            if old_pre:
                old_pre(k)
            if rfl.status == "proved":
                for q in (k, k + 1, k - 1):
                    c.assume(bimp(band(icmp(">=", q, 0), icmp("<", q, n)), goal_f(zi(q), cps[0].at(zi(q)))))
    instQ = induction_with(S, "running product invariant", lambda k: factor_ok(k, Fc.at(k)), n, pre=pre_Q)
    ext = [e for e in c.trace if e[0] == "extreme"]
    # the array the history is computed from: the argument of the extreme when there is one, else recover it from hist
    is_ro = c.decide(bterm(ro)) if not isinstance(ro, bool) else ro
    j = indices(S, n, "j")[0]
    if extra_inst:
        extra_inst(j)
    instQ(j)
    instQ(iadd(j, 1))
    hold("hist[j] in [0,1], not NaN", hist_ok_v(hist.at(j)))
    if is_ro:
        if len(ext) != 1:
            S.holds("one extreme over the history", False)
            return
        _, which, M, w, wn, terms = ext[0]
        for q in (w, wn):
            if extra_inst:
                extra_inst(q)
            instQ(q)
            instQ(iadd(q, 1))
        Tj, Tw, Twn = terms.at(j), terms.at(w), terms.at(wn)
        l1 = S.holds("hist[j] = h(terms[j])", xsame(hist.at(j), hist_of(Tj)))
        l2 = S.holds("hist[w] = h(terms[w])", xsame(hist.at(w), hist_of(Tw)))
        l3 = S.holds("p = g(extreme(terms))", xsame(p, p_of(M)))
        def _adm(i):
            if extra_inst:
                extra_inst(i)
            instQ(i)
            instQ(iadd(i, 1))
            return entry_ok(terms.at(i))
        instT = S.forall_lemma("terms[i] admissible", n, _adm)
        eo = []
        if not (instT(j) and instT(w) and instT(wn)):
            S.undecided("p-value clauses (prerequisite lemmas not discharged)")
            return
        if known:
            hold("p in [0,1], not NaN", hist_ok_v(p))
            hold("p <= hist[j] (random order)", xcmp("<=", p, hist.at(j)))
            hold("p = hist[w] (random order, extreme attained)", xsame(p, hist.at(w)))
            return
        if any(r_.status != "proved" for r_ in [l1, l2, l3] + eo):
            S.undecided("p-value clauses (prerequisite lemmas not discharged)")
            return
        inr = lambda i: band(icmp(">=", i, 0), icmp("<", i, n))
        op = ">=" if which == "max" else "<="
        facts = [inr(w), inr(wn), inr(j), bimp(M.nan, xr(Twn).nan), bimp(bnot(M.nan), xsame(M, Tw)),
                 bimp(xr(Tj).nan, M.nan), bimp(bnot(M.nan), xcmp(op, M, Tj)), M.wf(),
                 entry_ok(Tj), entry_ok(Tw), entry_ok(Twn), xr(Tj).wf(), xr(Tw).wf(), xr(Twn).wf(),
                 xsame(hist.at(j), hist_of(Tj)), xsame(hist.at(w), hist_of(Tw)), xsame(p, p_of(M))]
        opq = [Tj, Tw, Twn]
        S.prove_using("p in [0,1], not NaN", hist_ok_v(p), facts, opq)
        S.prove_using("p <= hist[j] (random order)", xcmp("<=", p, hist.at(j)), facts, opq)
        S.prove_using("p = hist[w] (random order, extreme attained)", xsame(p, hist.at(w)), facts, opq)
        S.holds("wf(terms)", band(xr(Tj).wf(), xr(Tw).wf(), xr(Twn).wf()))
    else:
        last = isub(n, 1)
        if extra_inst:
            extra_inst(last)
        instQ(last)
        instQ(n)
        hold("p = hist[last] (not random order)", xsame(p, hist.at(last)))
        hold("p in [0,1], not NaN", hist_ok_v(p))
    S.check_vacuity("generic_wf")


ONE = XR.const(1, npk=True)


def pos_or_inf(T):
    T = xr(T)
    return band(bnot(T.nan), bnot(T.ninf), bimp(T.fin(), rcmp(">", T.v, 0)))


def nonneg_fin(T):
    T = xr(T)
    return band(T.fin(), rcmp(">=", T.v, 0))


@script(["C11", "C01"], "NonnegMean.kaplan_markov/well-formed")
def km_wf(S, I, variant):
    n = S.length("n", lo=1)
    u = S.real("u", lo_strict=0)
    t = S.real("t", lo_strict=0, hi_strict=u)
    g = S.real("g", lo=0)
    x = S.array("x", n, 0, u)
    ro = S.boolean("random_order")
    self = mk_self(I, {"u": u, "N": INF, "t": t, "g": g, "random_order": ro})
    fn = I.get(MOD, "NonnegMean.kaplan_markov")
    generic_wf(S, I, fn, self, x, n, nn_native("kaplan_markov", False, attrs=("g", "random_order")),
               factor_ok=lambda k, Fk: pos_or_inf(Fk),
               hist_of=lambda T: xminimum(T, ONE),
               p_of=lambda M: xminimum(XR.const(1, npk=True), M), agg="min", ro=ro, entry_ok=pos_or_inf)


@script(["C11", "C01"], "NonnegMean.kaplan_wald/well-formed")
def kw_wf(S, I, variant):
    n = S.length("n", lo=1)
    u = S.real("u", lo_strict=0)
    t = S.real("t", lo_strict=0, hi_strict=u)
    g = S.real("g", lo=0, hi=1)
    x = S.array("x", n, 0, u)
    ro = S.boolean("random_order")
    self = mk_self(I, {"u": u, "N": INF, "t": t, "g": g, "random_order": ro})
    fn = I.get(MOD, "NonnegMean.kaplan_wald")
    generic_wf(S, I, fn, self, x, n, nn_native("kaplan_wald", False, attrs=("g", "random_order")),
               factor_ok=lambda k, Fk: nonneg_fin(Fk),
               hist_of=lambda T: xminimum(xdiv_np(ONE, T), ONE),
               p_of=lambda M: xminimum(XR.const(1, npk=True), xdiv_np(ONE, M)), agg="max", ro=ro, entry_ok=nonneg_fin)


@script(["C11", "C01"], "NonnegMean.kaplan_kolmogorov/well-formed", variants=(("padded",), ("any",)))
def kk_wf(S, I, variant):
    """'padded': every x_i + g > 0 (g > 0, or no zero observation): proved.  'any': recorded known finding K4 (NaN).
    The invariant is stated over the padded data the code hands to sjm (x+g, null mean t+g): if the padded null mean before
    draw k-1 is >= 0 then the running product over k factors is > 0 (or +inf)."""
    install_contracts(I)
    padded = variant[0] == "padded"
    n, u, t, Nv, Nspec = base_regime(S, True)
    g = S.real("g", lo=0, hi_strict=1)
    x = S.array("x", n, 0, u)
    if padded:
        if x.items is not None:
            for e in x.items:
                ctx().assume(xcmp(">", xadd(e, g), XR.const(0)))
        else:
            old = x._elem
            x._elem = lambda i: (lambda e: (ctx().assume(xcmp(">", xadd(e, g), XR.const(0))), e)[1])(old(i))
    ro = S.boolean("random_order")
    self = mk_self(I, {"u": u, "N": Nv, "t": t, "g": g, "random_order": ro})
    fn = I.get(MOD, "NonnegMean.kaplan_kolmogorov")
    holder = {}
    orig_sjm = I.contracts["NonnegMean.sjm"]

    def sjm_hook(I_, fn_, args, kwargs):
        r = orig_sjm(I_, fn_, args, kwargs)
        xs = I_.trace.get("sjm_x", [])
        if xs and "xg" not in holder:
            holder["xg"] = xs[-1]
            holder["tg"] = args[2]
        return r

    I.contracts["NonnegMean.sjm"] = sjm_hook
    zero = XR.const(0)

    def mpad(k):
        return mu_spec(Nspec, holder["tg"], holder["xg"].fold("+"), k)

    def factor_ok(k, Fk):
        return bimp(band(icmp(">=", k, 1), xcmp(">=", mpad(isub(k, 1)), zero)), pos_or_inf(Fk))

    mono_holder = {}

    def mono(k):
        """padded null mean >= 0 before draw k (k >= 1)  =>  > 0 before draw k-1   (modular, from the running-sum unfolding)"""
        if "inst" not in mono_holder:
            c = ctx()
            xg = holder["xg"]
            PS = xg.fold("+")
            k0 = z3.Int(c.fresh("mono_k"))
            c.index_terms_add(k0)
            xk = xg.at(mkint(isub(k0, 1)))
            goal = lambda q: bimp(band(icmp(">=", q, 1), xcmp(">=", mpad(q), zero)), xcmp(">", mpad(isub(q, 1)), zero))
            hyps = [k0 >= 1, k0 < zi(n), zi(n) <= zi(iterm(Nspec)), xcmp(">", xk, zero),
                    xsame(PS.at(k0), xadd(PS.at(mkint(isub(k0, 1))), xk))]
            r = S.prove_using("padded null mean: nonnegative now => positive one draw earlier", goal(k0), hyps, opaque=[])
            ok = r.status == "proved"

            def inst(q):
                if ok:
                    c.assume(bimp(band(icmp(">=", q, 0), icmp("<", q, n)), goal(zi(q))))
                return ok
            mono_holder["inst"] = inst
        return mono_holder["inst"](k)

    def pre(k):
        if "xg" in holder and holder["xg"].items is None:
            for q in (k, k + 1, k - 1):
                mono(q)

    generic_wf(S, I, fn, self, x, n, nn_native("kaplan_kolmogorov", True, attrs=("g", "random_order")), factor_ok=factor_ok,
               hist_of=lambda T: xminimum(xdiv_np(ONE, T), ONE),
               p_of=lambda M: xmin_py(xdiv_np(ONE, M), XR.const(1)), agg="max", ro=ro,
               entry_ok=pos_or_inf, pre_Q=pre, extra_inst=lambda q: pre(zi(q)), known=None if padded else "K4")


@script(["C11", "C01"], "NonnegMean.wald_sprt/well-formed", variants=(("finiteN", "inside"), ("infN", "inside"), ("finiteN", "any")))
def sprt_wf(S, I, variant):
    """'inside': samples that keep the null mean mu_i in (0,u) and the alternative eta_i in [0,u]: proved.
    'any': recorded known finding K9 (no boundary conventions in wald_sprt: negative / NaN history entries)."""
    finiteN = variant[0] == "finiteN"
    insideR = variant[1] == "inside"
    n, u, t, Nv, Nspec = base_regime(S, finiteN)
    eta = S.real("eta", lo_strict=t, hi_strict=u)
    x = S.array("x", n, 0, u)
    ro = S.boolean("random_order") if not finiteN else True
    self = mk_self(I, {"u": u, "N": Nv, "t": t, "eta": eta, "random_order": ro})
    fn = I.get(MOD, "NonnegMean.wald_sprt")
    PS = x.fold("+")
    mu = lambda k: mu_spec(Nspec, t, PS, k)
    ek = lambda k: mu_spec(Nspec, eta, PS, k)
    zero = XR.const(0)

    def regime(k):
        if insideR and finiteN:
            c = ctx()
            c.assume(bimp(band(icmp(">=", k, 0), icmp("<", k, n)),
                          band(inside(mu(k), u), xcmp(">=", ek(k), zero), xcmp("<=", ek(k), u))))

    def pre(k):
        for q in (k, k - 1, k + 1):
            regime(zi(q))

    if isinstance(n, int) and insideR and finiteN:
        for k in range(n):
            regime(k)
    generic_wf(S, I, fn, self, x, n, nn_native("wald_sprt", finiteN, attrs=("eta", "random_order") if not finiteN else ("eta",)),
               factor_ok=lambda k, Fk: nonneg_fin(Fk),
               hist_of=lambda T: xminimum(ONE, xdiv_np(ONE, T)),
               p_of=lambda M: xmin_py(XR.const(1), xdiv_np(ONE, M)), agg="max", ro=ro,
               entry_ok=nonneg_fin, pre_Q=pre, extra_inst=lambda q: pre(zi(q)), known=None if insideR else "K9",
               known_clauses=("hist[j] in [0,1], not NaN",),
               factor_lemma=(lambda k, fk: bimp(band(inside(mu(k), u), xcmp(">=", ek(k), zero), xcmp("<=", ek(k), u)),
                                                band(xr(fk).fin(), xcmp(">=", fk, zero))),
                             lambda k: [xcmp(">", u, zero), xcmp(">=", x.at(k), zero), xcmp("<=", x.at(k), u), xr(mu(k)).wf(), xr(ek(k)).wf()],
                             lambda k: [mu(k), ek(k)]) if finiteN else None)


# ------------------------------------------------------------------ conversions, ALPHA == betting (C12)

@script(["C12"], "NonnegMean.lam_to_eta+eta_to_lam/inverse")
def conversions(S, I, variant):
    u = S.real("u", lo_strict=0)
    mu = S.real("mu", lo_strict=0, hi_strict=u)
    lam = S.real("lam")
    eta = S.real("eta")
    self = mk_self(I, {"u": u})
    l2e = I.get(MOD, "NonnegMean.lam_to_eta")
    e2l = I.get(MOD, "NonnegMean.eta_to_lam")
    S.native_desc = None
    try:
        e1 = I.run(l2e, [self, lam, mu])
        l1 = I.run(e2l, [self, eta, mu])
        back_l = I.run(e2l, [self, e1, mu])
        back_e = I.run(l2e, [self, l1, mu])
    except PyRaise as e:
        S.holds("no-exception:" + e.exc_type, False)
        return
    S.eq("lam_to_eta = mu(1+lam(u-mu))", e1, xmul(mu, xadd(XR.const(1), xmul(lam, xsub(u, mu)))))
    S.eq("eta_to_lam = (eta/mu-1)/(u-mu)", l1, xdiv_np(xsub(xdiv_np(eta, mu), XR.const(1)), xsub(u, mu)))
    S.eq("eta_to_lam(lam_to_eta(lam)) = lam", back_l, lam)
    S.eq("lam_to_eta(eta_to_lam(eta)) = eta", back_e, eta)


@script(["C12", "C01"], "ALPHA==betting/factor-equivalence", variants=(("finiteN",), ("infN",)))
def alpha_betting_equiv(S, I, variant):
    """lemma over the two product-form contracts: with eta_i = lam_to_eta(lam_i, mu_i) (computed by the real function on
    arrays) the ALPHA and betting histories coincide"""
    finiteN = variant[0] == "finiteN"
    n, u, t, Nv, Nspec = base_regime(S, finiteN)
    x = S.array("x", n, 0, u)
    lam = S.array("lam", n)
    PS = x.fold("+")
    mu = lambda k: mu_spec(Nspec, t, PS, k)
    muarr = mk_arr(n, mu)
    self = mk_self(I, {"u": u})
    l2e = I.get(MOD, "NonnegMean.lam_to_eta")
    S.native_desc = None
    try:
        eta = I.run(l2e, [self, lam, muarr])
    except PyRaise as e:
        S.holds("no-exception:" + e.exc_type, False)
        return
    fa = mk_arr(n, lambda k: alpha_factor(x.at(k), eta.at(k), mu(k), u))
    fb = mk_arr(n, lambda k: bet_factor(x.at(k), lam.at(k), mu(k)))
    Ta, Tb = fa.fold("*"), fb.fold("*")
    Stot = PS.at(n)
    if isinstance(n, int):
        for j in range(n):
            S.eq("ALPHA history = betting history", mart_hist_spec(Ta.at(j + 1), mu(j), j, n, u, Nspec, t, Stot),
                 mart_hist_spec(Tb.at(j + 1), mu(j), j, n, u, Nspec, t, Stot))
        return
    # pointwise identity, proved with mu_k opaque (a scalar NRA fact about the two factor expressions)
    c = ctx()
    k0 = z3.Int(c.fresh("fk"))
    c.index_terms_add(k0)
    gk = lambda k: bimp(inside(mu(k), u), xsame(fa.at(k), fb.at(k)))
    rfi = S.prove_using("factor identity where 0 < mu_k < u", gk(k0), [xr(mu(k0)).wf(), xcmp(">", u, XR.const(0))], opaque=[mu(k0)])

    def fident(k):
        if rfi.status == "proved":
            c.assume(bimp(band(icmp(">=", k, 0), icmp("<", k, n)), gk(zi(k))))
    if finiteN:
        mono = mono_lemma(S, x, n, u, t, Nspec)
    else:
        mono = lambda i: True
    inst = induction_with(S, "products agree while the null mean stays inside (0,u)",
                          lambda k: bimp(band(icmp(">=", k, 1), inside(mu(isub(k, 1)), u)), xsame(Ta.at(k), Tb.at(k))), n,
                          pre=lambda k: (mono(k), mono(k + 1), fident(k), fident(k + 1)))
    for j in indices(S, n, "j"):
        inst(j + 1)
        S.eq("ALPHA history = betting history", mart_hist_spec(Ta.at(j + 1), mu(j), j, n, u, Nspec, t, Stot),
             mart_hist_spec(Tb.at(j + 1), mu(j), j, n, u, Nspec, t, Stot))


# ------------------------------------------------------------------ C01: supermartingale certificate

@script(["C01"], "certificate/affine-factor+sign", variants=(("alpha", "finiteN"), ("alpha", "infN"), ("betting", "finiteN"), ("betting", "infN")))
def cert_mart(S, I, variant):
    """each multiplicative factor of the real code is 1 + lam_i (x_i - mu_i) with lam_i determined before draw i,
    lam_i >= 0 and lam_i mu_i <= 1  (=> factor >= 0 on [0,u] and conditional mean <= 1 under the null)"""
    which, finiteN = variant[0], variant[1] == "finiteN"
    install_contracts(I)
    n, u, t, Nv, Nspec, x, par, self = mart_setup(S, I, which, finiteN)
    fn = I.get(MOD, "NonnegMean.alpha_mart" if which == "alpha" else "NonnegMean.betting_mart")
    I.trace.clear()
    r, exc = run_guard(S, I, fn, [self, x], native=mart_native(which, finiteN))
    if exc:
        return
    if isinstance(n, int):
        return
    cps = I.trace.get("cum*", [])
    if len(cps) != 1:
        S.holds("exactly-one-running-product", False)
        return
    fc = cps[0]
    PS = x.fold("+")
    from pyvc.spec import skolem
    i = skolem("i", n)
    mu = mu_spec(Nspec, t, PS, i)
    xi = npx(x.at(i))
    one = XR.const(1, npk=True)
    if which == "alpha":
        eta = par.at(i)
        lam = xdiv_np(xsub(xdiv_np(eta, mu), one), xsub(u, mu))
        rng = band(xcmp(">=", eta, mu), xcmp("<=", eta, u))
    else:
        lam = par.at(i)
        rng = band(xcmp(">=", lam, XR.const(0)), xcmp("<=", xmul(lam, mu), one))
    ins = inside(mu, u)
    base = S.base_facts + [xr(mu).wf(), xcmp(">=", xi, XR.const(0)), xcmp("<=", xi, u)]
    S.prove_using("factor_i = 1 + lam_i (x_i - mu_i)", bimp(ins, xsame(fc.at(i), xadd(one, xmul(lam, xsub(xi, mu))))), base, opaque=[mu])
    S.prove_using("lam_i >= 0 and lam_i mu_i <= 1 under the estimator/bet interface", bimp(band(ins, rng),
                  band(xr(lam).fin(), xcmp(">=", lam, XR.const(0)), xcmp("<=", xmul(lam, mu), one))), base, opaque=[mu])
    S.prove_using("factor_i >= 0 for every x_i in [0,u]", bimp(band(ins, rng), band(xr(fc.at(i)).fin(), xcmp(">=", fc.at(i), XR.const(0)))),
                  base, opaque=[mu])


@script(["C01"], "certificate/null-total-lemma")
def cert_null_total(S, I, variant):
    """the +inf overrides (p = 0) occur only on events impossible under the null: if all N values are >= 0 and their mean
    is <= t then every partial sum PS(k) <= N t  (k <= N)"""
    N = S.length("N", lo=1)
    t = S.real("t", lo_strict=0)
    u = S.real("u", lo_strict=0)
    pop = S.array("pop", N, 0, u)
    PS = pop.fold("+")
    c = ctx()
    Nt = xmul(XR.const(N), t)
    if isinstance(N, int):
        c.assume(xcmp("<=", PS.at(N), Nt))
        for k in range(N + 1):
            S.holds("PS(k) <= N t", xcmp("<=", PS.at(k), Nt))
        return
    c.assume(xcmp("<=", PS.at(N), Nt))
    # monotone partial sums: PS(k) <= PS(N) by downward induction, phrased upward on d = N - k
    inst = S.induction("partial sums are monotone", lambda d: xcmp("<=", PS.at(z3.simplify(zi(N) - d)), PS.at(N)), lo=0, hi=N)
    from pyvc.spec import skolem
    k = z3.Int(c.fresh("k"))
    c.assume(z3.And(k >= 0, k <= zi(N)))
    inst(zi(N) - k)
    S.holds("PS(k) <= N t", xcmp("<=", PS.at(k), Nt))


@script(["C01"], "certificate/affine-factor+sign[kaplan+sprt]")
def cert_others(S, I, variant):
    """the published factors of KK / KM / KW / SPRT as 1 + lam (x - mu) with 0 <= lam <= 1/mu (scalar NRA lemmas over the
    factor expressions used in the product-form contracts)"""
    u = S.real("u", lo_strict=0)
    mu = S.real("mu", lo_strict=0, hi_strict=u)
    x = S.real("x", lo=0, hi=u)
    g = S.real("g", lo=0, hi_strict=1)
    eta = S.real("eta", lo=mu, hi=u)
    one = XR.const(1)
    S.native_desc = None

    def affine(name, f, lam):
        S.holds(name + ": factor = 1 + lam (x - mu)", xsame(f, xadd(one, xmul(lam, xsub(x, mu)))))
        S.holds(name + ": 0 <= lam, lam mu <= 1", band(xr(lam).fin(), xcmp(">=", lam, XR.const(0)), xcmp("<=", xmul(lam, mu), one)))

    affine("Kaplan-Kolmogorov", xdiv_np(xadd(x, g), xadd(mu, g)), xdiv_np(one, xadd(mu, g)))
    affine("Kaplan-Markov (1/factor of the code)", xdiv_np(xadd(x, g), xadd(mu, g)), xdiv_np(one, xadd(mu, g)))
    affine("Kaplan-Wald", xadd(xdiv_np(xmul(xsub(one, g), x), mu), g), xdiv_np(xsub(one, g), mu))
    affine("SPRT", alpha_factor(x, eta, mu, u), xdiv_np(xsub(xdiv_np(eta, mu), one), xsub(u, mu)))


# ------------------------------------------------------------------ sample_size (C16)

def abstract_test(S, store, hname="H"):
    """field-held test abstracted by its interface contract (C11): returns (p, history) with one entry per observation,
    each in [0,1]; the argument it was called with is recorded"""
    def call(I, a, k):
        from pyvc.npmodel import to_arr
        pop = to_arr(I, a[0] if a else k.get("x"))
        store.append(pop)
        H = S.array(hname + str(len(store)), pop.length, 0, 1)
        return (XR.finvar(ctx().fresh("pval"), npk=True), H)
    return Builtin("abstract_test", call)


@script(["C16"], "NonnegMean.sample_size/deterministic")
def sample_size_det(S, I, variant):
    L = S.length("len_x", lo=1)
    N = S.integer("N", lo=1)
    u = S.real("u", lo_strict=0)
    alpha = S.real("alpha", lo_strict=0, hi_strict=1)
    x = S.array("x", L, 0, u)
    calls = []
    self = mk_self(I, {"N": N, "u": u, "test": abstract_test(S, calls)})
    fn = I.get(MOD, "NonnegMean.sample_size")
    S.native_desc = {"kind": "nonneg_sample_size", "args": ["x", "alpha", "N", "u"]}
    if S.mode == "replay":
        out = S.native_out
        if not out.get("ok"):
            S.holds("no-exception:" + out.get("exception", "?"), False)
            return
        v = out["value"]
        res, pop_native, H_native = v["sam_size"], v["pop"], v["hist"]
        pop = from_native([float(z) if not isinstance(z, str) else z for z in pop_native])
        H = from_native([float(z) if not isinstance(z, str) else z for z in H_native])
        res = int(res)
        Nn = int(S.inputs["N"]) if isinstance(S.inputs["N"], int) else None
    else:
        try:
            res = I.run(fn, [self, x], {"alpha": alpha})
        except PyRaise as e:
            S.holds("no-exception:" + e.exc_type + ":" + e.msg[:40], False)
            return
        if len(calls) != 1:
            S.holds("the test is run exactly once on the hypothetical population", False)
            return
        pop = calls[0]
        H = S.inputs["H1"]
    Nt = iterm(N) if not isinstance(N, int) else N
    S.holds("population has N entries", icmp("==", pop.length, Nt))
    c = ctx()
    # pilot values tiled: pop[i] = x[i mod len(x)]
    if isinstance(L, int) and isinstance(pop.length, int):
        for i in range(pop.length):
            S.eq("pop[i] = x[i mod len(x)]", pop.at(i), x.at(i % L))
    else:
        i = z3.Int(c.fresh("pi"))
        c.assume(z3.And(i >= 0, i < zi(Nt)))
        S.eq("pop[i] = x[i mod len(x)]", pop.at(i), x.at(mkint(i % zi(L))))
    # first crossing
    crossed = lambda k: xcmp("<=", H.at(k), alpha)
    if isinstance(pop.length, int):
        Nn = pop.length
        first = Nn
        for k in range(Nn - 1, -1, -1):
            first = mkint(iite(crossed(k), k + 1, first))
        S.holds("result = first k with hist[k-1] <= alpha, else N", icmp("==", res, first))
    else:
        r = iterm(res)
        from pyvc.values import instantiate_universals
        kq = z3.Int(c.fresh("kq"))
        c.assume(z3.And(kq >= 0, kq < zi(Nt)))
        c.skolems = getattr(c, "skolems", {})
        c.skolems[tid(kq)] = kq
        S.holds("1 <= result <= N", band(icmp(">=", r, 1), icmp("<=", r, Nt)))
        S.holds("crossing at the result (or no crossing at all and result = N)",
                bor(crossed(isub(r, 1)), band(icmp("==", r, Nt), bnot(crossed(kq)))))
        S.holds("no crossing before the result", bimp(icmp("<", kq, isub(r, 1)), bnot(crossed(kq))))


# ------------------------------------------------------------------ documented defaults (eta = u (1 - eps) when not given)

@script(["C13", "C12"], "NonnegMean estimators/default alternative u(1-eps)", variants=(("fixed_alternative_mean",), ("shrink_trunc",), ("wald_sprt",)))
def default_eta(S, I, variant):
    which = variant[0]
    install_contracts(I)
    install_welford(I)
    n, u, t, Nv, Nspec = base_regime(S, True)
    x = S.array("x", n, 0, u)
    eta_def = xmul(npx(u), xsub(XR.const(1, npk=True), XR.const(EPS, npk=True)))
    PS = x.fold("+")
    if which == "fixed_alternative_mean":
        self = mk_self(I, {"u": u, "N": Nv, "t": t})
        fn = I.get(MOD, "NonnegMean.fixed_alternative_mean")
        r, exc = run_guard(S, I, fn, [self, x], native=nn_native("fixed_alternative_mean", True))
        if exc:
            return
        for k in indices(S, n, "k"):
            S.eq("eta_k = (N u(1-eps) - PS(k))/(N-k) when no alternative is given", r.at(k), mu_spec(Nspec, eta_def, PS, k))
    elif which == "shrink_trunc":
        c_, d, f, minsd = shrink_params(S)
        self = mk_self(I, {"u": u, "N": Nv, "t": t, "c": c_, "d": d, "f": f, "minsd": minsd})
        fn = I.get(MOD, "NonnegMean.shrink_trunc")
        r, exc = run_guard(S, I, fn, [self, x], native=nn_native("shrink_trunc", True, attrs=("c", "d", "f", "minsd")))
        if exc:
            return
        instM = m2_nonneg_lemma(S, x, n)
        for k in indices(S, n, "k"):
            instM(k)
            instM(iadd(k, 1))
            spec, mu, cap = shrink_spec(x, k, u, t, Nspec, eta_def, c_, d, f, minsd)
            S.eq("eta_k per the documented definition with eta = u(1-eps)", r.at(k), spec)
    else:
        self = mk_self(I, {"u": u, "N": Nv, "t": t, "random_order": True})
        fn = I.get(MOD, "NonnegMean.wald_sprt")
        I.trace.clear()
        r, exc = run_guard(S, I, fn, [self, x], native=nn_native("wald_sprt", True))
        if exc:
            return
        p, hist = r
        if isinstance(n, int):
            return
        cps = I.trace.get("cum*", [])
        if len(cps) != 1:
            S.holds("exactly one running product", False)
            return
        k = indices(S, n, "k")[0]
        S.eq("SPRT factor uses eta_k = (N u(1-eps) - PS(k))/(N-k) when no alternative is given", cps[0].at(k),
             alpha_factor(x.at(k), mu_spec(Nspec, eta_def, PS, k), mu_spec(Nspec, t, PS, k), u))


# ------------------------------------------------------------------ the constructor (C11, C12, C01): a test object is what its arguments say

@script(["C11", "C12", "C01"], "NonnegMean.__init__/post (every argument is stored; methods are bound to the object)",
        variants=(("kaplan_wald",), ("kaplan_markov",), ("kaplan_kolmogorov",), ("alpha_mart",), ("betting_mart",)))
def constructor_post(S, I, variant):
    tname = variant[0]
    cls = I.get(MOD, "NonnegMean")
    u = S.real("u", lo_strict=0)
    t = S.real("t", lo_strict=0, hi_strict=u)
    Nv = S.choose("N", ["inf", "finite"])
    N = XR.const(float("inf")) if Nv == "inf" else S.integer("N_finite", lo=1)
    ro = S.boolean("random_order")
    g = S.real("g", lo=0, hi=1)
    eta = S.real("eta", lo=t, hi=u)
    kw = {"test": I.get(MOD, "NonnegMean." + tname), "u": u, "N": N, "t": t, "random_order": ro, "g": g, "eta": eta}
    if tname == "betting_mart":
        kw["bet"] = I.get(MOD, "NonnegMean.fixed_bet")
        kw["lam"] = S.real("lam", lo=0, hi=1)
    obj, exc = guard(S, I, lambda: I.call(cls, [], kw))
    if exc:
        return
    a = obj.attrs
    S.holds("u, N, t and random_order are stored as given",
            band(xsame(xr(a.get("u")), u), bterm(I.equal(a.get("N"), N)), xsame(xr(a.get("t")), t),
                 biff(bterm(mkbool(I.truth_term(a.get("random_order")))), bterm(ro)) if a.get("random_order") is not None else False))
    S.holds("keyword parameters (g, eta, lam, ...) become attributes", band(xsame(xr(a.get("g")), g) if a.get("g") is not None else False,
                                                                          xsame(xr(a.get("eta")), eta) if a.get("eta") is not None else False))
    tm = a.get("test")
    S.holds("the test is the requested method, bound to this object",
            type(tm).__name__ == "BoundMethod" and getattr(tm, "selfv", None) is obj
            and getattr(getattr(tm, "fn", None), "qual", "").endswith("." + tname))
