"""Contracts and proof scripts for the RAIRE side (shangrla/raire/*) and for the agreement between the generator's
ballot predicates and the audit's IRV assorters (C14), assertion truth / sufficiency (C04), optimality (C15)."""
import z3
import itertools
from fractions import Fraction
from pyvc.core import *
from pyvc.values import *
from pyvc.interp import Obj, Builtin, BoundMethod, Closure
from pyvc.heap import *
from .common import make_script_registry, guard, npx
from .audit import mk_contest, MOD as AUDIT, HALF, ONE, ZERO, b2x

RU = "shangrla.raire.raire_utils"
RA = "shangrla.raire.raire"
SE = "shangrla.raire.sample_estimator"
SCRIPTS, script = make_script_registry(__name__)
# numeric identifiers as in real exports; deliberately substrings of one another
W, L, E1, E2 = "1", "2", "12", "21"
CANDS = [W, L, E1, E2]


def ranked_ballot(S, I, name, cands, contest="con"):
    """one ranked ballot seen by both readers: RAIRE side {cand: idx} (0-based position), audit side CVR with
    votes[contest][cand] = idx + 1.  Each candidate is listed or not (symbolic); positions of listed candidates are
    pairwise distinct (duplicate-free ranking)."""
    c = ctx()
    listed = {k: z3.Bool(f"{name}.listed[{k}]") for k in cands}
    idx = {k: z3.Int(f"{name}.idx[{k}]") for k in cands}
    for k in cands:
        c.assume(idx[k] >= 0)
    for a, b in itertools.combinations(cands, 2):
        c.assume(z3.Implies(z3.And(listed[a], listed[b]), idx[a] != idx[b]))
    ballot = OptDict()
    inner = OptDict()
    for k in cands:
        ballot.keys.append(k)
        ballot.pres[k] = mkbool(listed[k])
        ballot.vals[k] = SInt(idx[k])
        inner.keys.append(k)
        inner.pres[k] = mkbool(listed[k])
        inner.vals[k] = SInt(idx[k] + 1)
    has = z3.Bool(f"{name}.has_contest")
    votes = OptDict([contest], {contest: mkbool(has)}, {contest: inner})
    cvr = Obj(I.get(AUDIT, "CVR"), {"id": name, "votes": votes, "phantom": False, "pool": False, "tally_pool": None,
                                    "sample_num": None, "p": None, "sampled": False, "card_in_batch": None})
    raire_cvr = OptDict([contest], {contest: mkbool(has)}, {contest: ballot})
    S._rec(name, {"listed": {k: listed[k] for k in cands}, "idx": {k: idx[k] for k in cands}, "has_contest": has})
    return cvr, raire_cvr, listed, idx, has


def first_among(listed, idx, cand, standing):
    """spec: `cand` is the first preference among the candidates still standing"""
    if cand not in standing:
        return False
    conds = [listed[cand]]
    for a in standing:
        if a != cand:
            conds.append(z3.Or(z3.Not(listed[a]), idx[a] > idx[cand]))
    return z3.And(*conds)


ELIMS = (("none",), ("E1",), ("E1+E2",))
_EL = {"none": [], "E1": [E1], "E1+E2": [E1, E2]}


@script(["C14", "C06"], "IRV_ELIMINATION assorter == RAIRE NEN verdicts (all ballots over 4 candidates)", variants=ELIMS)
def nen_agreement(S, I, variant):
    elim = _EL[variant[0]]
    cvr, rcvr, listed, idx, has = ranked_ballot(S, I, "ballot", CANDS)
    con = mk_contest(I, id="con", name="con", cards=S.integer("cards", lo=1), candidates=CANDS, winner=[W], choice_function="IRV")
    js = [{"winner": W, "loser": L, "assertion_type": "IRV_ELIMINATION", "already_eliminated": list(elim)}]
    fn = I.get(AUDIT, "Assertion.make_assertions_from_json")
    r, exc = guard(S, I, lambda: I.call(fn, [], {"contest": con, "candidates": CANDS, "json_assertions": js}))
    if exc:
        return
    key = f"{W} v {L} elim " + " ".join(elim)
    S.holds("assertion key", list(r.keys()) == [key])
    if list(r.keys()) != [key]:
        return
    asn = r[key]
    val, exc = guard(S, I, lambda: I.call(asn.attrs["assorter"].attrs["assort"], [cvr], {}))
    if exc:
        return
    NEN = I.get(RU, "NENAssertion")
    nen, exc = guard(S, I, lambda: I.call(NEN, ["con", W, L, list(elim)], {}))
    if exc:
        return
    w, exc = guard(S, I, lambda: I.call(I.getattr(nen, "is_vote_for_winner"), [rcvr], {}))
    if exc:
        return
    l, exc = guard(S, I, lambda: I.call(I.getattr(nen, "is_vote_for_loser"), [rcvr], {}))
    if exc:
        return
    standing = [k for k in CANDS if k not in elim]
    S.holds("generator: vote for winner <=> winner is the first standing preference",
            biff(icmp("==", w, 1), band(has, first_among(listed, idx, W, standing))))
    S.holds("generator: vote for loser <=> loser is the first standing preference",
            biff(icmp("==", l, 1), band(has, first_among(listed, idx, L, standing))))
    S.holds("generator verdicts are 0/1", band(bor(icmp("==", w, 0), icmp("==", w, 1)), bor(icmp("==", l, 0), icmp("==", l, 1))))
    S.eq("audit assorter value = (w - l + 1)/2 with the generator's verdicts", val,
         xdiv_np(xadd(XR.const(mkint(isub(w, l))), ONE), XR.const(2)))
    S.holds("assorter value in {0, 1/2, 1}, bound 1", band(xcmp(">=", val, ZERO), xcmp("<=", val, ONE),
                                                          bterm(I.equal(asn.attrs["assorter"].attrs["upper_bound"], 1))))
    from .audit import test_config
    test_config(S, I, asn, con, "[IRV_ELIMINATION]")
    S.holds("test.u = assorter bound", bterm(I.equal(asn.attrs["test"].attrs["u"], asn.attrs["assorter"].attrs["upper_bound"])))


@script(["C14", "C06"], "WINNER_ONLY assorter == RAIRE NEB verdicts (all ballots over 4 candidates)")
def neb_agreement(S, I, variant):
    cvr, rcvr, listed, idx, has = ranked_ballot(S, I, "ballot", CANDS)
    # duplicate-free ranking read by both readers: positions are 0..m-1 for the m listed candidates (needed for "rank 1")
    c = ctx()
    con = mk_contest(I, id="con", name="con", cards=S.integer("cards", lo=1), candidates=CANDS, winner=[W], choice_function="IRV")
    js = [{"winner": W, "loser": L, "assertion_type": "WINNER_ONLY", "already_eliminated": ""}]
    fn = I.get(AUDIT, "Assertion.make_assertions_from_json")
    r, exc = guard(S, I, lambda: I.call(fn, [], {"contest": con, "candidates": CANDS, "json_assertions": js}))
    if exc:
        return
    S.holds("assertion key", list(r.keys()) == [f"{W} v {L}"])
    if list(r.keys()) != [f"{W} v {L}"]:
        return
    asn = r[f"{W} v {L}"]
    val, exc = guard(S, I, lambda: I.call(asn.attrs["assorter"].attrs["assort"], [cvr], {}))
    if exc:
        return
    NEB = I.get(RU, "NEBAssertion")
    neb, exc = guard(S, I, lambda: I.call(NEB, ["con", W, L], {}))
    if exc:
        return
    w, exc = guard(S, I, lambda: I.call(I.getattr(neb, "is_vote_for_winner"), [rcvr], {}))
    if exc:
        return
    l, exc = guard(S, I, lambda: I.call(I.getattr(neb, "is_vote_for_loser"), [rcvr], {}))
    if exc:
        return
    S.holds("generator: vote for winner <=> winner ranked first", biff(icmp("==", w, 1), band(has, listed[W], idx[W] == 0)))
    S.holds("generator: vote for loser <=> loser ranked and (winner unranked or loser before winner)",
            biff(icmp("==", l, 1), band(has, listed[L], z3.Or(z3.Not(listed[W]), idx[L] < idx[W]))))
    S.eq("audit assorter value = (w - l + 1)/2 with the generator's verdicts", val,
         xdiv_np(xadd(XR.const(mkint(isub(w, l))), ONE), XR.const(2)))
    S.holds("assorter value in {0, 1/2, 1}", band(xcmp(">=", val, ZERO), xcmp("<=", val, ONE)))
    from .audit import test_config
    test_config(S, I, asn, con, "[WINNER_ONLY]")
    S.holds("test.u = assorter bound = 1", band(bterm(I.equal(asn.attrs["test"].attrs["u"], 1)), bterm(I.equal(asn.attrs["assorter"].attrs["upper_bound"], 1))))


# ------------------------------------------------------------------ C15 hypothesis: the shipped difficulty functions

@script(["C15", "C04"], "sample_estimator.bp_estimate+cp_estimate/post and monotonicity")
def estimators_post(S, I, variant):
    """exact closed forms, and: for fixed (winner+loser, total) resp. fixed total the difficulty strictly decreases as the
    winner-loser margin grows (the hypothesis under which 'cheapest assertion' = 'largest margin')"""
    w = S.integer("winner", lo=1)
    l = S.integer("loser", lo=0)
    ctx().assume(zi(iterm(w)) > zi(iterm(l)))
    tot = S.integer("total", lo=1)
    ctx().assume(zi(iterm(tot)) >= zi(iterm(w)) + zi(iterm(l)))
    o = mkint(isub(isub(tot, w), l))
    bp = I.get(SE, "bp_estimate")
    cp = I.get(SE, "cp_estimate")
    S.native_desc = None
    rb, exc = guard(S, I, lambda: I.call(bp, [w, l, o, tot], {}))
    if exc:
        return
    rc, exc = guard(S, I, lambda: I.call(cp, [w, l, o, tot], {}))
    if exc:
        return
    W, L, T = XR.const(w), XR.const(l), XR.const(tot)
    p = xdiv_np(xadd(W, L), T)
    q = xdiv_np(xsub(W, L), xadd(W, L))
    S.eq("bp_estimate = 1/(p q^2), p = (w+l)/total, q = (w-l)/(w+l)", rb, xdiv_np(ONE, xmul(p, xmul(q, q))))
    S.eq("cp_estimate = total/(w - l)", rc, xdiv_np(T, xsub(W, L)))
    S.holds("both difficulties are positive and finite", band(xr(rb).fin(), xr(rc).fin(), xcmp(">", rb, ZERO), xcmp(">", rc, ZERO)))
    # one more vote moved from the loser to the winner (same w+l, same total): strictly easier
    w2, l2 = mkint(iadd(w, 1)), mkint(isub(l, 1))
    c = ctx()
    if c.decide(icmp(">=", l2, 0)):
        rb2, exc = guard(S, I, lambda: I.call(bp, [w2, l2, o, tot], {}))
        rc2, exc2 = guard(S, I, lambda: I.call(cp, [w2, l2, o, tot], {}))
        if not exc and not exc2:
            S.holds("bp strictly decreases as the margin grows", xcmp("<", rb2, rb))
            S.holds("cp strictly decreases as the margin grows", xcmp("<", rc2, rc))


# ------------------------------------------------------------------ C04 / C15: the per-node choice of the search (find_best_audit)

C3 = ["a", "b", "ab"]          # identifiers that are substrings of one another, as in real exports
TAILS = tuple(("-".join(map(str, t)),) for n in (2, 3) for t in itertools.permutations(range(3), n))


class LazyRow:
    """row of the NEB matrix: each entry is None or an NEB assertion with a symbolic difficulty; decided when first read"""

    def __init__(self, I, row, store):
        self.I, self.row, self.store = I, row, store

    def py_getitem(self, I, key):
        k = (self.row, I.concrete_key(key))
        if k not in self.store:
            c = ctx()
            if c.decide(z3.Bool(f"neb[{k[0]}][{k[1]}].exists")):
                a = I.call(I.get(RU, "NEBAssertion"), ["con", k[0], k[1]], {})
                a.attrs["difficulty"] = XR.finvar(f"neb[{k[0]}][{k[1]}].difficulty")
                self.store[k] = a
            else:
                self.store[k] = None
        return self.store[k]


@script(["C04", "C15"], "find_best_audit/post (3 candidates, every tail; any number of ballots, symbolic NEB matrix and difficulty function)",
        variants=TAILS, optional=True)
def find_best_audit_post(S, I, variant):
    c = ctx()
    tail = [C3[int(k)] for k in variant[0].split("-")]
    elim = [x for x in C3 if x not in tail]
    NB = S.integer("n_ballots", lo=0)
    TB = S.integer("tot_ballots", lo=0)
    HAS = {k: z3.Function(f"listed_{k}", z3.IntSort(), z3.BoolSort()) for k in C3}
    RK = {k: z3.Function(f"rank_{k}", z3.IntSort(), z3.IntSort()) for k in C3}

    def make(i):
        i = zi(i)
        for k in C3:
            c.assume(RK[k](i) >= 0)                       # positions are 0-based
        for a, b in itertools.combinations(C3, 2):        # duplicate-free ranking
            c.assume(z3.Implies(z3.And(HAS[a](i), HAS[b](i)), RK[a](i) != RK[b](i)))
        return OptDict(list(C3), {k: mkbool(HAS[k](i)) for k in C3}, {k: SInt(RK[k](i)) for k in C3})

    ballots = SymObjList(iterm(NB), make)
    contest = I.call(I.get(RU, "Contest"), ["con", list(C3), C3[0], TB], {})
    store = {}
    nebs = {x: LazyRow(I, x, store) for x in C3}
    EST = z3.Function("asn", z3.IntSort(), z3.IntSort(), z3.IntSort(), z3.IntSort(), z3.RealSort())
    asn = Builtin("asn_func", lambda I_, a, k: XR(EST(*[zi(iterm(x)) for x in a])))
    node = I.call(I.get(RU, "RaireNode"), [list(tail)], {})
    fn = I.get(RU, "find_best_audit")
    r, exc = guard(S, I, lambda: I.call(fn, [contest, ballots, nebs, node, asn], {}))
    if exc:
        return

    # spec: tallies in the context where `elim` are eliminated
    def votes(cand, i):
        i = zi(i)
        return z3.And(HAS[cand](i), *[z3.Or(z3.Not(HAS[a](i)), RK[a](i) > RK[cand](i)) for a in tail if a != cand])

    tally = {x: SymArr(iterm(NB), (lambda x: (lambda i: mkint(iite(votes(x, i), 1, 0))))(x), "int").fold("+") for x in tail}
    # every sum the code formed is a sum over all ballots of an indicator that agrees pointwise with the spec of one candidate
    code_tally = {}
    j = z3.Int(c.fresh("jb"))
    for (res, arr) in I.trace.get("sum", []):
        c.assume(z3.And(j >= 0, j < zi(NB)))
        hit = None
        el = arr.at(j)
        for x in tail:
            sv = z3.Solver()
            sv.set("rlimit", 30000000)        # deterministic budget (the query is a few case distinctions over one ballot)
            for h in c.hyps():
                sv.add(h)
            sv.add(z3.Not(zb(band(icmp("==", arr.length, NB), icmp("==", el, iite(votes(x, j), 1, 0))))))
            if sv.check() == z3.unsat:
                hit = x
        if hit is None:
            S.holds("every tally formed is the count of ballots whose first standing preference is some candidate of the tail", False)
            return
        c.assume(icmp("==", res, tally[hit].at(iterm(NB))))       # extensionality of the sum (same summands, same length)
        code_tally[hit] = res
    T = {x: tally[x].at(iterm(NB)) for x in tail}
    first = tail[0]
    best = node.attrs["best_assertion"]
    # the assertions that can rule out every outcome ending in `tail` (RAIRE): NEB(first, later), NEB(eliminated, any in tail),
    # and NEN(first, later | eliminated) when first's tally exceeds later's
    app_neb = [(first, l) for l in tail[1:]] + [(e, t) for e in elim for t in tail]
    cand_list = []
    for (w, l) in app_neb:
        # reading the matrix entry decides (forks on) its existence
        a = nebs[w].py_getitem(I, l)
        if a is not None:
            cand_list.append(("NEB", w, l, a.attrs["difficulty"], a))
    for l in tail[1:]:
        if c.decide(icmp(">", T[first], T[l])):
            d = XR(EST(zi(iterm(T[first])), zi(iterm(T[l])), zi(iterm(isub(TB, iadd(T[first], T[l])))), zi(iterm(TB))))
            cand_list.append(("NEN", first, l, d, None))
    if not cand_list:
        S.holds("no applicable assertion exists => the node gets none", best is None)
        return
    S.holds("an applicable assertion exists => the node gets one", best is not None)
    if best is None:
        return
    S.holds("the node's estimate is its assertion's difficulty", bterm(mkbool(I.truth_term(I.equal(node.attrs["estimate"], best.attrs["difficulty"])))))
    for (kind, w, l, d, a) in cand_list:
        S.holds(f"chosen difficulty <= difficulty of {kind}({w},{l})", xcmp("<=", best.attrs["difficulty"], d))
    is_nen = best.cls.name == "NENAssertion"
    if is_nen:
        ok = [x for x in cand_list if x[0] == "NEN" and x[1] == best.attrs["winner"] and x[2] == best.attrs["loser"]]
        S.holds("a chosen NEN is NEN(first in tail, a later candidate | exactly the candidates outside the tail) with first's tally larger",
                bool(ok) and list(best.attrs["eliminated"]) == elim and best.attrs["contest"] == "con")
        if ok:
            S.holds("its reported tallies are the tallies on the ballots, winner strictly larger; difficulty = asn(tallies)",
                    band(icmp("==", best.attrs["votes_for_winner"], T[first]), icmp("==", best.attrs["votes_for_loser"], T[ok[0][2]]),
                         icmp(">", best.attrs["votes_for_winner"], best.attrs["votes_for_loser"]), xsame(best.attrs["difficulty"], ok[0][3])))
            S.holds("it records that it rules out exactly this tail", set(best.attrs["rules_out"]) == {tuple(tail)})
    else:
        S.holds("a chosen NEB is one of the applicable matrix entries", any(best is x[4] for x in cand_list if x[0] == "NEB"))
