"""Contracts and proof scripts for the RAIRE side (shangrla/raire/*) and for the agreement between the generator's
ballot predicates and the audit's IRV assorters (C14), assertion truth / sufficiency (C04), optimality (C15)."""
import z3
import itertools
from fractions import Fraction
from pyvc.core import *
from pyvc.values import *
from pyvc.interp import Obj, Builtin, BoundMethod, Closure
from pyvc.heap import *
from .common import make_script_registry, guard, npx
from .audit import mk_contest, MOD as AUDIT, HALF, ONE, ZERO, b2x

RU = "shangrla.raire.raire_utils"
RA = "shangrla.raire.raire"
SE = "shangrla.raire.sample_estimator"
SCRIPTS, script = make_script_registry(__name__)
# numeric identifiers as in real exports; deliberately substrings of one another
W, L, E1, E2 = "1", "2", "12", "21"
CANDS = [W, L, E1, E2]


def ranked_ballot(S, I, name, cands, contest="con"):
    """one ranked ballot seen by both readers: RAIRE side {cand: idx} (0-based position), audit side CVR with
    votes[contest][cand] = idx + 1.  Each candidate is listed or not (symbolic); positions of listed candidates are
    pairwise distinct (duplicate-free ranking)."""
    c = ctx()
    listed = {k: z3.Bool(f"{name}.listed[{k}]") for k in cands}
    idx = {k: z3.Int(f"{name}.idx[{k}]") for k in cands}
    for k in cands:
        c.assume(idx[k] >= 0)
    for a, b in itertools.combinations(cands, 2):
        c.assume(z3.Implies(z3.And(listed[a], listed[b]), idx[a] != idx[b]))
    ballot = OptDict()
    inner = OptDict()
    for k in cands:
        ballot.keys.append(k)
        ballot.pres[k] = mkbool(listed[k])
        ballot.vals[k] = SInt(idx[k])
        inner.keys.append(k)
        inner.pres[k] = mkbool(listed[k])
        inner.vals[k] = SInt(idx[k] + 1)
    has = z3.Bool(f"{name}.has_contest")
    votes = OptDict([contest], {contest: mkbool(has)}, {contest: inner})
    cvr = Obj(I.get(AUDIT, "CVR"), {"id": name, "votes": votes, "phantom": False, "pool": False, "tally_pool": None,
                                    "sample_num": None, "p": None, "sampled": False, "card_in_batch": None})
    raire_cvr = OptDict([contest], {contest: mkbool(has)}, {contest: ballot})
    S._rec(name, {"listed": {k: listed[k] for k in cands}, "idx": {k: idx[k] for k in cands}, "has_contest": has})
    return cvr, raire_cvr, listed, idx, has


def first_among(listed, idx, cand, standing):
    """spec: `cand` is the first preference among the candidates still standing"""
    if cand not in standing:
        return False
    conds = [listed[cand]]
    for a in standing:
        if a != cand:
            conds.append(z3.Or(z3.Not(listed[a]), idx[a] > idx[cand]))
    return z3.And(*conds)


ELIMS = (("none",), ("E1",), ("E1+E2",))
_EL = {"none": [], "E1": [E1], "E1+E2": [E1, E2]}


@script(["C14", "C06"], "IRV_ELIMINATION assorter == RAIRE NEN verdicts (all ballots over 4 candidates)", variants=ELIMS)
def nen_agreement(S, I, variant):
    elim = _EL[variant[0]]
    cvr, rcvr, listed, idx, has = ranked_ballot(S, I, "ballot", CANDS)
    con = mk_contest(I, id="con", name="con", cards=S.integer("cards", lo=1), candidates=CANDS, winner=[W], choice_function="IRV")
    js = [{"winner": W, "loser": L, "assertion_type": "IRV_ELIMINATION", "already_eliminated": list(elim)}]
    fn = I.get(AUDIT, "Assertion.make_assertions_from_json")
    r, exc = guard(S, I, lambda: I.call(fn, [], {"contest": con, "candidates": CANDS, "json_assertions": js}))
    if exc:
        return
    key = f"{W} v {L} elim " + " ".join(elim)
    S.holds("assertion key", list(r.keys()) == [key])
    if list(r.keys()) != [key]:
        return
    asn = r[key]
    val, exc = guard(S, I, lambda: I.call(asn.attrs["assorter"].attrs["assort"], [cvr], {}))
    if exc:
        return
    NEN = I.get(RU, "NENAssertion")
    nen, exc = guard(S, I, lambda: I.call(NEN, ["con", W, L, list(elim)], {}))
    if exc:
        return
    w, exc = guard(S, I, lambda: I.call(I.getattr(nen, "is_vote_for_winner"), [rcvr], {}))
    if exc:
        return
    l, exc = guard(S, I, lambda: I.call(I.getattr(nen, "is_vote_for_loser"), [rcvr], {}))
    if exc:
        return
    standing = [k for k in CANDS if k not in elim]
    S.holds("generator: vote for winner <=> winner is the first standing preference",
            biff(icmp("==", w, 1), band(has, first_among(listed, idx, W, standing))))
    S.holds("generator: vote for loser <=> loser is the first standing preference",
            biff(icmp("==", l, 1), band(has, first_among(listed, idx, L, standing))))
    S.holds("generator verdicts are 0/1", band(bor(icmp("==", w, 0), icmp("==", w, 1)), bor(icmp("==", l, 0), icmp("==", l, 1))))
    S.eq("audit assorter value = (w - l + 1)/2 with the generator's verdicts", val,
         xdiv_np(xadd(XR.const(mkint(isub(w, l))), ONE), XR.const(2)))
    S.holds("assorter value in {0, 1/2, 1}, bound 1", band(xcmp(">=", val, ZERO), xcmp("<=", val, ONE),
                                                          bterm(I.equal(asn.attrs["assorter"].attrs["upper_bound"], 1))))
    from .audit import test_config
    test_config(S, I, asn, con, "[IRV_ELIMINATION]")
    S.holds("test.u = assorter bound", bterm(I.equal(asn.attrs["test"].attrs["u"], asn.attrs["assorter"].attrs["upper_bound"])))


@script(["C14", "C06"], "WINNER_ONLY assorter == RAIRE NEB verdicts (all ballots over 4 candidates)")
def neb_agreement(S, I, variant):
    cvr, rcvr, listed, idx, has = ranked_ballot(S, I, "ballot", CANDS)
    # duplicate-free ranking read by both readers: positions are 0..m-1 for the m listed candidates (needed for "rank 1")
    c = ctx()
    con = mk_contest(I, id="con", name="con", cards=S.integer("cards", lo=1), candidates=CANDS, winner=[W], choice_function="IRV")
    js = [{"winner": W, "loser": L, "assertion_type": "WINNER_ONLY", "already_eliminated": ""}]
    fn = I.get(AUDIT, "Assertion.make_assertions_from_json")
    r, exc = guard(S, I, lambda: I.call(fn, [], {"contest": con, "candidates": CANDS, "json_assertions": js}))
    if exc:
        return
    S.holds("assertion key", list(r.keys()) == [f"{W} v {L}"])
    if list(r.keys()) != [f"{W} v {L}"]:
        return
    asn = r[f"{W} v {L}"]
    val, exc = guard(S, I, lambda: I.call(asn.attrs["assorter"].attrs["assort"], [cvr], {}))
    if exc:
        return
    NEB = I.get(RU, "NEBAssertion")
    neb, exc = guard(S, I, lambda: I.call(NEB, ["con", W, L], {}))
    if exc:
        return
    w, exc = guard(S, I, lambda: I.call(I.getattr(neb, "is_vote_for_winner"), [rcvr], {}))
    if exc:
        return
    l, exc = guard(S, I, lambda: I.call(I.getattr(neb, "is_vote_for_loser"), [rcvr], {}))
    if exc:
        return
    S.holds("generator: vote for winner <=> winner ranked first", biff(icmp("==", w, 1), band(has, listed[W], idx[W] == 0)))
    S.holds("generator: vote for loser <=> loser ranked and (winner unranked or loser before winner)",
            biff(icmp("==", l, 1), band(has, listed[L], z3.Or(z3.Not(listed[W]), idx[L] < idx[W]))))
    S.eq("audit assorter value = (w - l + 1)/2 with the generator's verdicts", val,
         xdiv_np(xadd(XR.const(mkint(isub(w, l))), ONE), XR.const(2)))
    S.holds("assorter value in {0, 1/2, 1}", band(xcmp(">=", val, ZERO), xcmp("<=", val, ONE)))
    from .audit import test_config
    test_config(S, I, asn, con, "[WINNER_ONLY]")
    S.holds("test.u = assorter bound = 1", band(bterm(I.equal(asn.attrs["test"].attrs["u"], 1)), bterm(I.equal(asn.attrs["assorter"].attrs["upper_bound"], 1))))


# ------------------------------------------------------------------ C15 hypothesis: the shipped difficulty functions

@script(["C15", "C04"], "sample_estimator.bp_estimate+cp_estimate/post and monotonicity")
def estimators_post(S, I, variant):
    """exact closed forms, and: for fixed (winner+loser, total) resp. fixed total the difficulty strictly decreases as the
    winner-loser margin grows (the hypothesis under which 'cheapest assertion' = 'largest margin')"""
    w = S.integer("winner", lo=1)
    l = S.integer("loser", lo=0)
    ctx().assume(zi(iterm(w)) > zi(iterm(l)))
    tot = S.integer("total", lo=1)
    ctx().assume(zi(iterm(tot)) >= zi(iterm(w)) + zi(iterm(l)))
    o = mkint(isub(isub(tot, w), l))
    bp = I.get(SE, "bp_estimate")
    cp = I.get(SE, "cp_estimate")
    S.native_desc = None
    rb, exc = guard(S, I, lambda: I.call(bp, [w, l, o, tot], {}))
    if exc:
        return
    rc, exc = guard(S, I, lambda: I.call(cp, [w, l, o, tot], {}))
    if exc:
        return
    W, L, T = XR.const(w), XR.const(l), XR.const(tot)
    p = xdiv_np(xadd(W, L), T)
    q = xdiv_np(xsub(W, L), xadd(W, L))
    S.eq("bp_estimate = 1/(p q^2), p = (w+l)/total, q = (w-l)/(w+l)", rb, xdiv_np(ONE, xmul(p, xmul(q, q))))
    S.eq("cp_estimate = total/(w - l)", rc, xdiv_np(T, xsub(W, L)))
    S.holds("both difficulties are positive and finite", band(xr(rb).fin(), xr(rc).fin(), xcmp(">", rb, ZERO), xcmp(">", rc, ZERO)))
    # one more vote moved from the loser to the winner (same w+l, same total): strictly easier
    w2, l2 = mkint(iadd(w, 1)), mkint(isub(l, 1))
    c = ctx()
    if c.decide(icmp(">=", l2, 0)):
        rb2, exc = guard(S, I, lambda: I.call(bp, [w2, l2, o, tot], {}))
        rc2, exc2 = guard(S, I, lambda: I.call(cp, [w2, l2, o, tot], {}))
        if not exc and not exc2:
            S.holds("bp strictly decreases as the margin grows", xcmp("<", rb2, rb))
            S.holds("cp strictly decreases as the margin grows", xcmp("<", rc2, rc))
