"""Contracts and proof scripts for sampling and phantoms (CVR.consistent_sampling, CVR.make_phantoms): structure-bounded
(number of cards / contests fixed) with every leaf symbolic: which contests a card lists, sample numbers, sample sizes, bounds."""
import z3
import itertools
from fractions import Fraction
from pyvc.core import *
from pyvc.values import *
from pyvc.interp import Obj, Builtin, BoundMethod, Closure
from pyvc.heap import *
from .common import make_script_registry, guard, npx
from .audit import mk_contest, MOD, has_contest, rec_card

SCRIPTS, script = make_script_registry(__name__)
CONTESTS = ["A", "B"]


def style_cards(S, I, n, contests=CONTESTS):
    """n cards; each lists each contest or not (symbolic); pairwise distinct symbolic sample numbers"""
    c = ctx()
    cards = []
    for i in range(n):
        cards.append(rec_card(S, f"card{i}", sym_cvr(I, f"card{i}", {cid: ["x"] for cid in contests})))
    for a, b in itertools.combinations(cards, 2):
        c.assume(bnot(xcmp("==", a.attrs["sample_num"], b.attrs["sample_num"])))
    return cards


def spec_order(cards):
    """indices in increasing sample-number order (decided on the spec side)"""
    c = ctx()
    idx = list(range(len(cards)))
    out = []
    for i in idx:
        pos = len(out)
        while pos > 0 and c.decide(xcmp("<", cards[i].attrs["sample_num"], cards[out[pos - 1]].attrs["sample_num"])):
            pos -= 1
        out.insert(pos, i)
    return out


@script(["C07"], "CVR.consistent_sampling/post (bounded: n cards, 2 contests; symbolic styles, sample numbers, sizes)",
        variants=(("n1",), ("n2",), ("n3",)))
def consistent_sampling_post(S, I, variant):
    n = int(variant[0][1:])
    c = ctx()
    cards = style_cards(S, I, n)
    cons = {}
    sizes = {}
    for cid in CONTESTS:
        cnt = 0
        for cv in cards:
            cnt = mkint(iadd(cnt, iite(has_contest(cv, cid), 1, 0)))
        sizes[cid] = S.integer(f"size_{cid}", lo=0, hi=cnt)
        cons[cid] = mk_contest(I, id=cid, sample_size=sizes[cid], cards=10, candidates=["x"], winner=["x"])
    fn = I.get(MOD, "CVR.consistent_sampling")
    r, exc = guard(S, I, lambda: I.call(fn, [], {"cvr_list": cards, "contests": cons}))
    if exc:
        return
    order = spec_order(cards)
    chosen, thr = set(), {}
    for cid in CONTESTS:
        mine = [i for i in order if c.decide(has_contest(cards[i], cid))]
        k = 0
        while k < len(mine) and not c.decide(icmp("==", sizes[cid], k)):
            k += 1
        chosen.update(mine[:k])
        thr[cid] = cards[mine[k - 1]].attrs["sample_num"] if k >= 1 else None
    exp = [i for i in order if i in chosen]
    got = [I.conc_int(x) for x in r]
    S.holds("selection = union over contests of each contest's first n_c cards, in sample-number order, no repetition", got == exp)
    for cid in CONTESTS:
        if thr[cid] is not None:
            S.holds(f"[{cid}] threshold = sample number of the contest's n_c-th card",
                    bterm(I.equal(cons[cid].attrs["sample_threshold"], thr[cid])))
    for i, cv in enumerate(cards):
        S.holds(f"[card{i}] sampled flag set exactly on the selected cards", bterm(mkbool(I.truth_term(cv.attrs["sampled"]))) == (i in chosen)
                if isinstance(bterm(mkbool(I.truth_term(cv.attrs["sampled"]))), bool) else
                biff(bterm(mkbool(I.truth_term(cv.attrs["sampled"]))), i in chosen))


@script(["C08"], "CVR.make_phantoms/post (bounded: n CVRs, 2 contests; symbolic styles and bounds)",
        variants=tuple((f"n{n}", s) for n in (0, 1, 2) for s in ("style", "nostyle")))
def make_phantoms_post(S, I, variant):
    n = int(variant[0][1:])
    use_style = variant[1] == "style"
    c = ctx()
    cards = []
    for i in range(n):
        cards.append(rec_card(S, f"cvr{i}", sym_cvr(I, f"cvr{i}", {cid: ["x"] for cid in CONTESTS}, phantom=False)))
    cons, counts, bounds = {}, {}, {}
    for cid in CONTESTS:
        cnt = 0
        for cv in cards:
            cnt = mkint(iadd(cnt, iite(has_contest(cv, cid), 1, 0)))
        counts[cid] = cnt
        # the bound exceeds the count by 0, 1 or 2 (concrete choice: phantom creation loops over it)
        extra = S.choose(f"shortfall_{cid}", [0, 1, 2])
        bounds[cid] = (cnt, extra)
    max_extra = S.choose("stratum_extra", [0, 1])
    before = [(cv, dict((cid, has_contest(cv, cid)) for cid in CONTESTS)) for cv in cards]
    # concrete counts are needed by range(): decide the styles first
    conc_counts = {}
    for cid in CONTESTS:
        k = 0
        for cv in cards:
            if c.decide(has_contest(cv, cid)):
                k += 1
        conc_counts[cid] = k
    max_cards = n + max(bounds[cid][1] for cid in CONTESTS) + max_extra
    for cid in CONTESTS:
        cons[cid] = mk_contest(I, id=cid, cards=conc_counts[cid] + bounds[cid][1], candidates=["x"], winner=["x"])
    stratum = Obj(I.get(MOD, "Stratum"), {"use_style": use_style, "max_cards": max_cards})
    audit = Obj(I.get(MOD, "Audit"), {"strata": {"s": stratum}})
    fn = I.get(MOD, "CVR.make_phantoms")
    r, exc = guard(S, I, lambda: I.call(fn, [], {"audit": audit, "contests": cons, "cvr_list": list(cards), "prefix": "ph-"}))
    if exc:
        return
    out, nph = r
    S.holds("the original records come back first, the same objects", len(out) >= n and all(out[i] is cards[i] for i in range(n)))
    ph = out[n:]
    S.holds("returned count = number of appended records, all phantoms", band(bterm(I.equal(nph, len(ph))),
            all(p.attrs["phantom"] is True for p in ph)))
    ids = [p.attrs["id"] for p in out]
    S.holds("identifiers are unique", len(set(ids)) == len(ids))
    if use_style:
        need = {cid: bounds[cid][1] for cid in CONTESTS}
        S.holds("no more phantoms than the largest shortfall", len(ph) == max(need.values()))
        for cid in CONTESTS:
            listed = conc_counts[cid] + sum(1 for p in ph if cid in p.attrs["votes"])
            S.holds(f"[{cid}] records listing the contest = the contest's card bound", listed == conc_counts[cid] + bounds[cid][1])
            S.holds(f"[{cid}] con.cvrs = number of real CVRs listing the contest", bterm(I.equal(cons[cid].attrs["cvrs"], conc_counts[cid])))
    else:
        S.holds("total number of records = the stratum's card bound", len(out) == max_cards)
        for cid in CONTESTS:
            S.holds(f"[{cid}] the contest's bound becomes the stratum bound", bterm(I.equal(cons[cid].attrs["cards"], max_cards)))
    for cv, hb in before:
        for cid in CONTESTS:
            S.holds(f"[{cv.attrs['id']}] original record unchanged ({cid})", biff(has_contest(cv, cid), hb[cid]))


for _d in SCRIPTS:
    if "sizes)[n3]" in _d["name"]:
        _d["thorough_only"] = True
