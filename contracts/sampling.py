"""Contracts and proof scripts for sampling and phantoms (CVR.consistent_sampling, CVR.make_phantoms): structure-bounded
(number of cards / contests fixed) with every leaf symbolic: which contests a card lists, sample numbers, sample sizes, bounds."""
import z3
import itertools
from fractions import Fraction
from pyvc.core import *
from pyvc.values import *
from pyvc.interp import Obj, Builtin, BoundMethod, Closure
from pyvc.heap import *
from .common import make_script_registry, guard, npx, run_loop_body
from .audit import mk_contest, MOD, has_contest, rec_card

SCRIPTS, script = make_script_registry(__name__)
CONTESTS = ["A", "B"]


def style_cards(S, I, n, contests=CONTESTS):
    """n cards; each lists each contest or not (symbolic); pairwise distinct symbolic sample numbers"""
    c = ctx()
    cards = []
    for i in range(n):
        cards.append(rec_card(S, f"card{i}", sym_cvr(I, f"card{i}", {cid: ["x"] for cid in contests})))
    for a, b in itertools.combinations(cards, 2):
        c.assume(bnot(xcmp("==", a.attrs["sample_num"], b.attrs["sample_num"])))
    return cards


def spec_order(cards):
    """indices in increasing sample-number order (decided on the spec side)"""
    c = ctx()
    idx = list(range(len(cards)))
    out = []
    for i in idx:
        pos = len(out)
        while pos > 0 and c.decide(xcmp("<", cards[i].attrs["sample_num"], cards[out[pos - 1]].attrs["sample_num"])):
            pos -= 1
        out.insert(pos, i)
    return out


@script(["C07"], "CVR.consistent_sampling/post (bounded: n cards, 2 contests; symbolic styles, sample numbers, sizes)",
        variants=(("n1",), ("n2",), ("n3",)))
def consistent_sampling_post(S, I, variant):
    n = int(variant[0][1:])
    c = ctx()
    cards = style_cards(S, I, n)
    cons = {}
    sizes = {}
    for cid in CONTESTS:
        cnt = 0
        for cv in cards:
            cnt = mkint(iadd(cnt, iite(has_contest(cv, cid), 1, 0)))
        sizes[cid] = S.integer(f"size_{cid}", lo=0, hi=cnt)
        cons[cid] = mk_contest(I, id=cid, sample_size=sizes[cid], cards=10, candidates=["x"], winner=["x"])
    fn = I.get(MOD, "CVR.consistent_sampling")
    r, exc = guard(S, I, lambda: I.call(fn, [], {"cvr_list": cards, "contests": cons}))
    if exc:
        return
    order = spec_order(cards)
    chosen, thr = set(), {}
    for cid in CONTESTS:
        mine = [i for i in order if c.decide(has_contest(cards[i], cid))]
        k = 0
        while k < len(mine) and not c.decide(icmp("==", sizes[cid], k)):
            k += 1
        chosen.update(mine[:k])
        thr[cid] = cards[mine[k - 1]].attrs["sample_num"] if k >= 1 else None
    exp = [i for i in order if i in chosen]
    got = [I.conc_int(x) for x in r]
    S.holds("selection = union over contests of each contest's first n_c cards, in sample-number order, no repetition", got == exp)
    for cid in CONTESTS:
        if thr[cid] is not None:
            S.holds(f"[{cid}] threshold = sample number of the contest's n_c-th card",
                    bterm(I.equal(cons[cid].attrs["sample_threshold"], thr[cid])))
    for i, cv in enumerate(cards):
        S.holds(f"[card{i}] sampled flag set exactly on the selected cards", bterm(mkbool(I.truth_term(cv.attrs["sampled"]))) == (i in chosen)
                if isinstance(bterm(mkbool(I.truth_term(cv.attrs["sampled"]))), bool) else
                biff(bterm(mkbool(I.truth_term(cv.attrs["sampled"]))), i in chosen))


@script(["C08"], "CVR.make_phantoms/post (bounded: n CVRs, 2 contests; symbolic styles and bounds)",
        variants=tuple((f"n{n}", s) for n in (0, 1, 2) for s in ("style", "nostyle")))
def make_phantoms_post(S, I, variant):
    n = int(variant[0][1:])
    use_style = variant[1] == "style"
    c = ctx()
    cards = []
    for i in range(n):
        cards.append(rec_card(S, f"cvr{i}", sym_cvr(I, f"cvr{i}", {cid: ["x"] for cid in CONTESTS}, phantom=False)))
    cons, counts, bounds = {}, {}, {}
    for cid in CONTESTS:
        cnt = 0
        for cv in cards:
            cnt = mkint(iadd(cnt, iite(has_contest(cv, cid), 1, 0)))
        counts[cid] = cnt
        # the bound exceeds the count by 0, 1 or 2 (concrete choice: phantom creation loops over it)
        extra = S.choose(f"shortfall_{cid}", [0, 1, 2])
        bounds[cid] = (cnt, extra)
    max_extra = S.choose("stratum_extra", [0, 1])
    before = [(cv, dict((cid, has_contest(cv, cid)) for cid in CONTESTS)) for cv in cards]
    # concrete counts are needed by range(): decide the styles first
    conc_counts = {}
    for cid in CONTESTS:
        k = 0
        for cv in cards:
            if c.decide(has_contest(cv, cid)):
                k += 1
        conc_counts[cid] = k
    max_cards = n + max(bounds[cid][1] for cid in CONTESTS) + max_extra
    for cid in CONTESTS:
        cons[cid] = mk_contest(I, id=cid, cards=conc_counts[cid] + bounds[cid][1], candidates=["x"], winner=["x"])
    stratum = Obj(I.get(MOD, "Stratum"), {"use_style": use_style, "max_cards": max_cards})
    audit = Obj(I.get(MOD, "Audit"), {"strata": {"s": stratum}})
    fn = I.get(MOD, "CVR.make_phantoms")
    r, exc = guard(S, I, lambda: I.call(fn, [], {"audit": audit, "contests": {"key of " + k_: v_ for k_, v_ in cons.items()}, "cvr_list": list(cards), "prefix": "ph-"}))
    if exc:
        return
    out, nph = r
    S.holds("the original records come back first, the same objects", len(out) >= n and all(out[i] is cards[i] for i in range(n)))
    ph = out[n:]
    S.holds("returned count = number of appended records, all phantoms", band(bterm(I.equal(nph, len(ph))),
            all(p.attrs["phantom"] is True for p in ph)))
    ids = [p.attrs["id"] for p in out]
    S.holds("identifiers are unique", len(set(ids)) == len(ids))
    if use_style:
        need = {cid: bounds[cid][1] for cid in CONTESTS}
        S.holds("no more phantoms than the largest shortfall", len(ph) == max(need.values()))
        for cid in CONTESTS:
            listed = conc_counts[cid] + sum(1 for p in ph if cid in p.attrs["votes"])
            S.holds(f"[{cid}] records listing the contest = the contest's card bound", listed == conc_counts[cid] + bounds[cid][1])
            S.holds(f"[{cid}] con.cvrs = number of real CVRs listing the contest", bterm(I.equal(cons[cid].attrs["cvrs"], conc_counts[cid])))
    else:
        S.holds("total number of records = the stratum's card bound", len(out) == max_cards)
        for cid in CONTESTS:
            S.holds(f"[{cid}] the contest's bound becomes the stratum bound", bterm(I.equal(cons[cid].attrs["cards"], max_cards)))
    for cv, hb in before:
        for cid in CONTESTS:
            S.holds(f"[{cv.attrs['id']}] original record unchanged ({cid})", biff(has_contest(cv, cid), hb[cid]))


for _d in SCRIPTS:
    if "sizes)[n3]" in _d["name"]:
        _d["thorough_only"] = True


# ------------------------------------------------------------------ C07: consistent_sampling, UNBOUNDED number of cards (loop invariant)

class SamplingInvariant:
    """loop 2 (the `while`) of CVR.consistent_sampling, from-scratch call, N cards (symbolic), the contests of CONTESTS.
    Ghosts: sigma = the sort permutation (contract of sorted), has_c(j) = card sigma(j) lists contest c,
    cnt_c(k) = #{j < k : has_c(j)}  (ghost sum).
    Invariant at position inx (0 <= inx <= N):
      current_sizes[c] = min(n_c, cnt_c(inx));
      len(sampled) = L with 0 <= L <= inx;
      if current_sizes[c] >= 1: the threshold of c is the sample number of card sigma(w_c) for a witness w_c < inx with
                                has_c(w_c) and cnt_c(w_c) = current_sizes[c] - 1   (i.e. of c's current_sizes[c]-th card).
    Per iteration (checked in the preservation step): card sigma(inx) is appended exactly when it lists a contest whose first
    n_c cards are not yet complete, i.e.  take(inx) = OR_c has_c(inx) and cnt_c(inx) < n_c."""

    def __init__(self, S, cards, cons, sizes, N, prior=None):
        self.S, self.cards, self.cons, self.sizes, self.N = S, cards, cons, sizes, N
        self.post = None
        # continuation: `prior` is the list of card indices sampled before (symbolic length P0); the loop then appends only the
        # taken cards that are not in it.  From scratch: P0 = 0 and nothing is "in the prior".
        self.prior = prior
        self.P0 = prior.length if prior is not None else 0
        self.inprior = lambda idx: False

    def roles(self, env):
        """the loop state by role, not by name (renaming a local must not matter): the sorted index list, the per-contest
        counters, the selection (a parameter, so its name is part of the signature) and the integer position"""
        from pyvc.interp import DDict
        vs = env.vars
        srt = [k for k, v in vs.items() if isinstance(v, SymArr) and getattr(v, "sorted_perm", None) is not None]
        cnt = [k for k, v in vs.items() if isinstance(v, (DDict, dict)) and k != "contests"]
        pos = [k for k, v in vs.items() if isinstance(v, (int, SInt)) and not isinstance(v, bool)]
        if len(srt) != 1 or len(cnt) != 1 or len(pos) != 1 or "sampled_cvr_indices" not in vs:
            raise NotApplicable("loop state of consistent_sampling not recognised (sorted list / counters / position)")
        self.n_sorted, self.n_sizes, self.n_pos, self.n_sel = srt[0], cnt[0], pos[0], "sampled_cvr_indices"

    def setup(self, env):
        self.roles(env)
        sci = env.vars[self.n_sorted]
        self.sigma = lambda j: sci.at(j)
        sp = getattr(sci, "sorted_perm", None)
        self.S.holds("the cards are visited in the order sorted(...) by increasing sample number gives", sp is not None and not sp.keyvals[2])
        if sp is not None:
            jj = z3.Int(ctx().fresh("jj"))
            self.S.holds("sort key = the card's sample number; visited index = the permutation's",
                         band(bterm_eq(sp.key_at(jj), self.cards.at(sp.perm_at(jj).t).attrs["sample_num"]),
                              icmp("==", sci.at(jj), sp.perm_at(jj))), extra=[jj >= 0, jj < zi(self.N)])
        cards = self.cards
        self.has = {c: (lambda c: (lambda j: has_contest(cards.at(iterm(self.sigma(j))), c)))(c) for c in CONTESTS}
        self.cnt = {}
        for c in CONTESTS:
            ind = SymArr(self.N, (lambda c: (lambda j: mkint(iite(self.has[c](j), 1, 0))))(c), "int")
            self.cnt[c] = ind.fold("+")
            # precondition: the sample size of a contest does not exceed the number of cards listing it (otherwise the
            # real code runs off the end of the list); the count is taken along the sorted order (a permutation: same count)
            ctx().assume(icmp("<=", self.sizes[c], self.cnt[c].at(self.N)))
        self.take = lambda j: bor(*[band(self.has[cid](j), icmp("<", self.cnt[cid].at(j), self.sizes[cid])) for cid in CONTESTS])
        if self.prior is not None:
            from pyvc.heap import SymIntSet
            sets = [v for v in env.vars.values() if isinstance(v, SymIntSet)]
            if len(sets) != 1:
                raise NotApplicable("the set of previously sampled cards was not recognised")
            self.inprior = lambda idx: sets[0].member(zi(iterm(idx)))
        # a taken card is NEW when it was not sampled before
        self.new = lambda j: band(self.take(j), bnot(self.inprior(self.sigma(j))))
        self.T = SymArr(self.N, lambda j: mkint(iite(self.new(j), 1, 0)), "int").fold("+")

    def sel_ok(self, sel, L, POS, p, inx):
        """below P0 the list is the prior selection, untouched; the (p - P0)-th card after it is sigma(POS(p)), where POS(p) < inx is
        the position of the (p - P0)-th new taken card"""
        q = POS(p)
        old = bimp(band(icmp(">=", p, 0), icmp("<", p, self.P0)), icmp("==", sel.at(p), self.prior.at(p))) if self.prior is not None else True
        return band(old, bimp(band(icmp(">=", p, self.P0), icmp("<", p, L)),
                              band(icmp(">=", q, 0), icmp("<", q, inx), self.new(q), icmp("==", self.T.at(q), isub(p, self.P0)),
                                   icmp("==", sel.at(p), self.sigma(q)))))

    def state_ok(self, env, inx, wit):
        out = []
        cs = env.vars[self.n_sizes]
        for c in CONTESTS:
            cur = cs[c] if c in cs else 0
            cn = self.cnt[c].at(inx)
            out.append((f"[{c}] current size = min(n_c, cards of c among the first inx)",
                        icmp("==", cur, iite(icmp("<", self.sizes[c], cn), iterm(self.sizes[c]), iterm(cn)))))
            w = wit[c]
            thr = self.cons[c].attrs["sample_threshold"]
            sn = self.cards.at(iterm(self.sigma(w))).attrs["sample_num"]
            out.append((f"[{c}] threshold = sample number of c's current-size-th card",
                        bimp(icmp(">=", cur, 1), band(icmp(">=", w, 0), icmp("<", w, inx), self.has[c](w),
                                                      icmp("==", self.cnt[c].at(w), isub(cur, 1)),
                                                      bterm_eq(thr, sn)))))
        L = env.vars[self.n_sel].length if isinstance(env.vars[self.n_sel], SymArr) else len(env.vars[self.n_sel])
        out.append(("selected so far: the prior selection plus at most inx cards", band(icmp(">=", L, self.P0), icmp("<=", L, iadd(self.P0, inx)))))
        out.append(("number selected = prior + number of new taken positions before inx", icmp("==", L, iadd(self.P0, self.T.at(inx)))))
        out.append(("position within the list", band(icmp(">=", inx, 0), icmp("<=", inx, self.N))))
        return out

    def run_while(self, I, st, env, in_class):
        from pyvc.interp import CutPath
        S = self.S
        c = ctx()
        self.setup(env)
        wit0 = {cid: z3.IntVal(0) for cid in CONTESTS}
        for nm, g in self.state_ok(env, 0, wit0):
            S.holds("sampling.inv.entry: " + nm, g)
        mode = c.decide(z3.Bool(c.fresh("sampling_branch_preserve")))
        inx = z3.Int(c.fresh("inx"))
        # havoc the loop state
        cs = env.vars[self.n_sizes]
        wit = {}
        for cid in CONTESTS:
            cs[cid] = SInt(z3.Int(c.fresh(f"cur_{cid}")))
            wit[cid] = z3.Int(c.fresh(f"w_{cid}"))
            self.cons[cid].attrs["sample_threshold"] = XR.finvar(c.fresh(f"thr_{cid}"))
        L0 = z3.Int(c.fresh("L"))
        SEL = z3.Function(c.fresh("SEL"), z3.IntSort(), z3.IntSort())
        sel = SymArr(L0, lambda p: SInt(SEL(zi(p))), "int")
        sel.is_list = True
        env.vars[self.n_sel] = sel
        env.vars[self.n_pos] = SInt(inx)
        POSf = z3.Function(c.fresh("POS"), z3.IntSort(), z3.IntSort())
        POS = lambda p: POSf(zi(p))
        if mode:
            for nm, g in self.state_ok(env, inx, wit):
                c.assume(g)
            cond = I.truth(I.eval(st.test, env))
            if not cond:
                raise CutPath()          # the exit case is handled by the other branch
            before = {cid: cs[cid] for cid in CONTESTS}
            run_loop_body(I, st, env, in_class)
            sel2 = env.vars[self.n_sel]
            take = self.new(inx)
            S.holds("card sigma(inx) is appended exactly when it lists a contest whose first n_c cards are not complete (and was not sampled before)",
                    band(icmp("==", sel2.length, iadd(L0, iite(take, 1, 0))),
                         bimp(take, icmp("==", sel2.at(L0), self.sigma(inx)))))
            kk = z3.Int(c.fresh("selk"))
            S.holds("earlier selections are unchanged", icmp("==", sel2.at(kk), sel.at(kk)), extra=[kk >= 0, kk < L0])
            # quantified clause of the invariant, hypothesis instantiated at the goal's Skolem index kk
            POS2 = lambda p: z3.If(zi(p) == L0, inx, POSf(zi(p)))
            S.holds("sampling.inv.preserved: the p-th selected card is the p-th taken card of the sorted list (for all p)",
                    self.sel_ok(sel2, sel2.length, POS2, kk, inx + 1), extra=[zb(self.sel_ok(sel, L0, POS, kk, inx))])
            wit2 = {}
            for cid in CONTESTS:
                counted = band(self.has[cid](inx), icmp("<", self.cnt[cid].at(inx), self.sizes[cid]))
                wit2[cid] = z3.If(zb(counted), inx, wit[cid])
            S.holds("position advances by one", icmp("==", env.vars[self.n_pos], inx + 1))
            for nm, g in self.state_ok(env, inx + 1, wit2):
                S.holds("sampling.inv.preserved: " + nm, g)
            raise CutPath()
        # exit: invariant and negated loop condition
        for nm, g in self.state_ok(env, inx, wit):
            c.assume(g)
        if I.truth(I.eval(st.test, env)):
            raise CutPath()
        self.post = {"inx": inx, "wit": wit, "sel": sel, "POS": POS, "L": L0}


def bterm_eq(a, b):
    if a is None or b is None:
        return a is b
    return xsame(a, b) if isinstance(a, XR) or isinstance(b, XR) else (a is b)


@script(["C07", "C10"], "CVR.consistent_sampling/loop invariant (unbounded number of cards, 2 contests)",
        variants=(("from scratch",), ("continued from earlier samples",)), optional=True)
def consistent_sampling_unbounded(S, I, variant):
    continued = variant[0] != "from scratch"
    c = ctx()
    N = S.integer("N", lo=0)
    CVR = I.get(MOD, "CVR")
    H = {cid: z3.Function(f"lists_{cid}", z3.IntSort(), z3.BoolSort()) for cid in CONTESTS}
    SN = z3.Function("sample_num", z3.IntSort(), z3.RealSort())

    def make(i):
        votes = OptDict(list(CONTESTS), {cid: mkbool(H[cid](i)) for cid in CONTESTS}, {cid: {} for cid in CONTESTS})
        return Obj(CVR, {"id": None, "votes": votes, "phantom": False, "pool": False, "tally_pool": None,
                         "sample_num": XR(SN(i)), "p": None, "sampled": False, "card_in_batch": None})

    cards = SymObjList(iterm(N), make)
    sizes, cons = {}, {}
    for cid in CONTESTS:
        sizes[cid] = S.integer(f"size_{cid}", lo=0)
        cons[cid] = mk_contest(I, id=cid, sample_size=sizes[cid], cards=10, candidates=["x"], winner=["x"])
    prior = None
    if continued:
        P0 = S.integer("n_sampled_before", lo=0)
        PR = z3.Function("sampled_before", z3.IntSort(), z3.IntSort())
        prior = SymArr(iterm(P0), lambda pp: SInt(PR(zi(pp))), "int")
        prior.is_list = True
    inv = SamplingInvariant(S, cards, cons, sizes, iterm(N), prior=prior)
    I.invariants[("CVR.consistent_sampling", "while", 0)] = inv
    # the final flag-setting loop is abstracted away here (it is covered by the structure-bounded scripts): stop after the while
    I.invariants[("CVR.consistent_sampling", "for", -1)] = StopHere(inv)
    fn = I.get(MOD, "CVR.consistent_sampling")
    from pyvc.interp import CutPath
    S.native_desc = None
    # precondition: sizes do not exceed the cards available; stated over the ghost counts once the permutation exists (inside the invariant)
    inv.pre_sizes = True
    try:
        kw = {"cvr_list": cards, "contests": cons}
        if continued:
            kw["sampled_cvr_indices"] = prior
        r, exc = guard(S, I, lambda: I.call(fn, [], kw))
    except CutPath:
        return
    except StopHere.Reached:
        pass
    if inv.post is None:
        return
    inx, wit = inv.post["inx"], inv.post["wit"]
    p = z3.Int(c.fresh("p"))
    c.assume(zb(inv.sel_ok(inv.post["sel"], inv.post["L"], inv.post["POS"], p, inx)))     # invariant clause at an arbitrary p
    q = inv.post["POS"](p)
    S.holds("exit: beyond the earlier samples, the p-th selected card (any p) is a card among the first n_c cards listing some contest c, "
            "taken in sorted order and not sampled before",
            bimp(band(icmp(">=", p, inv.P0), icmp("<", p, inv.post["L"])),
                 band(icmp("==", inv.post["sel"].at(p), inv.sigma(q)), inv.take(q), icmp("==", inv.T.at(q), isub(p, inv.P0)))))
    if continued:
        S.holds("exit: the earlier samples are kept, in place (every round's cards contain the previous round's)",
                bimp(band(icmp(">=", p, 0), icmp("<", p, inv.P0)), icmp("==", inv.post["sel"].at(p), prior.at(p))))
    S.holds("exit: number selected = earlier samples + number of new taken positions", icmp("==", inv.post["L"], iadd(inv.P0, inv.T.at(inx))))
    for cid in CONTESTS:
        w = wit[cid]
        S.holds(f"[{cid}] exit: threshold = sample number of the contest's n_c-th card in sorted order",
                bimp(icmp(">=", sizes[cid], 1),
                     band(inv.has[cid](w), icmp("==", inv.cnt[cid].at(w), isub(sizes[cid], 1)),
                          bterm_eq(cons[cid].attrs["sample_threshold"], cards.at(iterm(inv.sigma(w))).attrs["sample_num"]))))
    for cid in CONTESTS:
        S.holds(f"[{cid}] on exit the contest has its n_c cards (given n_c <= cards listing c)",
                bimp(icmp("<=", sizes[cid], inv.cnt[cid].at(iterm(N))), icmp(">=", inv.cnt[cid].at(inx), sizes[cid])))


class StopHere:
    class Reached(Exception):
        pass

    def __init__(self, inv):
        self.inv = inv

    def run_for(self, I, st, env, in_class):
        raise StopHere.Reached()


# ------------------------------------------------------------------ C08: make_phantoms, UNBOUNDED number of CVRs and phantoms (loop summaries)

def _as_list(I, v):
    if isinstance(v, SymObjList):
        return v
    if isinstance(v, list) and not v:
        return SymObjList(0, lambda i: None)
    raise NotApplicable("the phantom list is not built by appending to an empty list")


def _appended_list(st):
    """name of the list the loop body appends to (role detection by shape, not by name)"""
    import ast
    names = {b.value.func.value.id for b in st.body
             if isinstance(b, ast.Expr) and isinstance(b.value, ast.Call) and isinstance(b.value.func, ast.Attribute)
             and b.value.func.attr == "append" and isinstance(b.value.func.value, ast.Name)}
    if len(names) != 1:
        raise NotApplicable("loop body does not append to exactly one list")
    return names.pop()


def _indexed_list(st):
    """name of the list indexed by the loop variable in the assignment targets of the body"""
    import ast
    names = set()
    for b in st.body:
        for t in (b.targets if isinstance(b, ast.Assign) else []):
            for n in ast.walk(t):
                if isinstance(n, ast.Subscript) and isinstance(n.value, ast.Name) and isinstance(n.slice, ast.Name) \
                        and isinstance(st.target, ast.Name) and n.slice.id == st.target.id:
                    names.add(n.value.id)
    if len(names) != 1:
        raise NotApplicable("loop body does not update the records of exactly one list by position")
    return names.pop()


def _enclosing_contest(I, st, env, cons):
    """the contest object of the enclosing `for ..., con in contests.items()` iteration"""
    import ast
    fn = I.fn_stack[-1]
    for n in ast.walk(fn.node):
        if isinstance(n, ast.For) and any(st is x for x in ast.walk(n)) and n is not st:
            for t in ast.walk(n.target):
                if isinstance(t, ast.Name):
                    v = env.lookup(t.id)
                    if any(v is cc for cc in cons.values()):
                        return v
    raise NotApplicable("enclosing loop over the contests not recognised")


def _simple_append_body(st, listname):
    """the loop body only binds temporaries and appends to `listname` (so that it can be summarised element by element)"""
    import ast
    for b in st.body:
        if isinstance(b, ast.Assign) and all(isinstance(t, ast.Name) and t.id != listname for t in b.targets):
            continue
        if isinstance(b, ast.Expr) and isinstance(b.value, ast.Call) and isinstance(b.value.func, ast.Attribute) \
                and b.value.func.attr == "append" and isinstance(b.value.func.value, ast.Name) and b.value.func.value.id == listname:
            continue
        return False
    return True


class AppendSummary:
    """summary of an append-only loop over the phantom list X (`for i in range(K): X.append(E)` or `while T: X.append(E)`):
    the element appended when the list has length q is obtained by running the REAL body on a list of length q;
    for the while form the obligations  'T holds exactly while len(X) < final length'  are proved for an arbitrary length."""

    def __init__(self, S, listname, final_len, kind):
        self.S, self.listname, self.final_len, self.kind = S, listname, final_len, kind

    def summarise(self, I, st, env, in_class):
        from pyvc.interp import Env
        S, c = self.S, ctx()
        X = _appended_list(st)
        if not _simple_append_body(st, X):
            raise NotApplicable("loop body is not an append-only body")
        old = _as_list(I, env.lookup(X))
        oldlen = old.length
        Lf = self.final_len(I, st, env, oldlen)

        def run_body_at(q, extra_vars):
            holder = {}

            def full_make(r):
                if not (isinstance(oldlen, int) and oldlen == 0) and c.decide(icmp("<", r, oldlen)):
                    return old.at(r)
                return new_at(r)
            tmp = SymObjList(mkint(q), full_make)
            env2 = Env(dict({X: tmp}, **extra_vars), env, env.module)
            env2.fn_qual = getattr(env, "fn_qual", None)
            holder["tmp"], holder["env"] = tmp, env2
            return holder

        memo = {}

        def new_at(q):
            k = tid(zi(q))
            if k not in memo:
                ev = {}
                if self.kind == "for":
                    ev[st.target.id] = mkint(isub(q, oldlen))
                h = run_body_at(q, ev)
                run_loop_body(I, st, h["env"], in_class)
                S.holds("the body appends exactly one record", icmp("==", h["tmp"].length, iadd(q, 1)))
                memo[k] = (zi(q), h["tmp"].at(q))
            return memo[k][1]

        def full(r):
            if not (isinstance(oldlen, int) and oldlen == 0) and c.decide(icmp("<", r, oldlen)):
                return old.at(r)
            return new_at(r)

        if self.kind == "while":
            L = z3.Int(c.fresh("Lw"))
            h = run_body_at(L, {})
            T = I.truth_term(I.eval(st.test, h["env"]))
            S.holds("the loop continues exactly while the phantom list is shorter than its final length",
                    biff(mkbool(T).t if isinstance(mkbool(T), SBool) else T, icmp("<", L, Lf)),
                    extra=[zb(icmp(">=", L, oldlen)), zb(icmp("<=", L, Lf))])
            S.holds("final length >= length on entry", icmp(">=", Lf, oldlen))
        else:
            import ast
            if not (isinstance(st.iter, ast.Call) and getattr(st.iter.func, "id", None) == "range" and len(st.iter.args) == 1
                    and isinstance(st.target, ast.Name)):
                raise NotApplicable("loop is not `for i in range(K)`")
            K = I.eval(st.iter.args[0], env)
            S.holds("number of iterations = final length - length on entry (or none if that is negative)",
                    icmp("==", iadd(oldlen, iite(icmp(">", K, 0), iterm(K), 0)), Lf))
        env.vars[X] = SymObjList(mkint(Lf), full)

    def run_for(self, I, st, env, in_class):
        return self.summarise(I, st, env, in_class)

    def run_while(self, I, st, env, in_class):
        return self.summarise(I, st, env, in_class)


def votes_has(rec, cid):
    v = rec.attrs["votes"]
    if isinstance(v, OptDict):
        return bterm(v.has(cid))
    if isinstance(v, dict):
        return cid in v
    raise NotApplicable("phantom votes are not a dict")


class ListContestSummary:
    """`for i in range(K): X[i].votes[con.id] = {}`: the real body is run on record i0 (arbitrary, 0 <= i0 < K) and its effect on
    that record is checked (lists the contest; every other field and every other contest's presence unchanged); the summary
    gives record q the contest exactly when 0 <= q < K or it had it before."""

    def __init__(self, S, cons, spec_K):
        self.S, self.cons, self.spec_K = S, cons, spec_K

    def run_for(self, I, st, env, in_class):
        import ast
        from pyvc.interp import Env
        S, c = self.S, ctx()
        if not (isinstance(st.iter, ast.Call) and getattr(st.iter.func, "id", None) == "range" and len(st.iter.args) == 1
                and isinstance(st.target, ast.Name)):
            raise NotApplicable("loop is not `for i in range(K)`")
        X = _indexed_list(st)
        lst = _as_list(I, env.lookup(X))
        con = _enclosing_contest(I, st, env, self.cons)
        cid = con.attrs["id"]
        K = I.eval(st.iter.args[0], env)
        S.holds(f"[{cid}] the contest is listed on the first (cards - cvrs) phantoms", icmp("==", K, self.spec_K(cid)))
        S.holds(f"[{cid}] enough phantoms exist", icmp("<=", K, lst.length))
        if c.decide(icmp(">", K, 0)):
            i0 = z3.Int(c.fresh("i0"))
            c.assume(z3.And(i0 >= 0, i0 < zi(K)))
            rec = lst.at(i0)
            before = {k: v for k, v in rec.attrs.items() if k != "votes"}
            hb = {x: votes_has(rec, x) for x in CONTESTS}
            env2 = Env({st.target.id: SInt(i0)}, env, env.module)
            env2.fn_qual = getattr(env, "fn_qual", None)
            run_loop_body(I, st, env2, in_class)
            rec2 = lst.at(i0)
            S.holds(f"[{cid}] the body lists the contest on record i and changes nothing else on it",
                    band(rec2 is rec, votes_has(rec, cid), *[biff(votes_has(rec, x), hb[x]) for x in CONTESTS if x != cid],
                         *[bterm(mkbool(I.truth_term(I.equal(rec.attrs[k], before[k])))) if before[k] is not None else rec.attrs[k] is None
                           for k in before]))

        def make(q):
            base = lst.make(q) if False else lst.at(q)
            pres = {x: mkbool(bor(votes_has(base, x), band(x == cid, icmp(">=", q, 0), icmp("<", q, K))) if x == cid else votes_has(base, x))
                    for x in CONTESTS}
            return Obj(base.cls, dict(base.attrs, votes=OptDict(list(CONTESTS), pres, {x: {} for x in CONTESTS})))
        env.vars[X] = SymObjList(lst.length, make)


@script(["C08"], "CVR.make_phantoms/post (unbounded: symbolic number of CVRs, bounds and phantoms; loop summaries; 2 contests)",
        variants=(("style",), ("nostyle",)), optional=True)
def make_phantoms_unbounded(S, I, variant):
    use_style = variant[0] == "style"
    c = ctx()
    N = S.integer("N", lo=0)
    CVR = I.get(MOD, "CVR")
    H = {cid: z3.Function(f"lists_{cid}", z3.IntSort(), z3.BoolSort()) for cid in CONTESTS}
    PH = lambda i: False        # precondition: the records handed in are real CVRs (phantoms are what this function creates)

    def make(i):
        votes = OptDict(list(CONTESTS), {cid: mkbool(H[cid](i)) for cid in CONTESTS}, {cid: {} for cid in CONTESTS})
        return Obj(CVR, {"id": FStr(["cvr", SInt(i)]), "votes": votes, "phantom": False, "pool": False, "tally_pool": None,
                         "sample_num": None, "p": None, "sampled": False, "card_in_batch": None})

    cards = SymObjList(iterm(N), make)
    cvrs_spec = {cid: SymArr(iterm(N), (lambda cid: (lambda i: mkint(iite(band(bnot(PH(zi(i))), H[cid](zi(i))), 1, 0))))(cid), "int").fold("+")
                 for cid in CONTESTS}
    max_cards = S.integer("max_cards", lo=0)
    bound = {cid: S.integer(f"cards_{cid}", lo=0) for cid in CONTESTS}
    cons = {cid: mk_contest(I, id=cid, cards=bound[cid], candidates=["x"], winner=["x"]) for cid in CONTESTS}
    stratum = Obj(I.get(MOD, "Stratum"), {"use_style": use_style, "max_cards": max_cards})
    audit = Obj(I.get(MOD, "Audit"), {"strata": {"s": stratum}})
    linked = set()

    def link(cid):
        """con.cvrs: the code's count is a sum over the positions of the list, pointwise equal to the spec's indicator"""
        if cid in linked or "cvrs" not in cons[cid].attrs or cons[cid].attrs["cvrs"] is None:
            return
        linked.add(cid)
        got = cons[cid].attrs["cvrs"]
        mine = [t for t in I.trace.get("filtered_sum", []) if t[0] is got or (isinstance(got, SInt) and isinstance(t[0], SInt) and t[0].t.eq(got.t))]
        if not mine:
            raise NotApplicable("con.cvrs is not computed as a sum over the CVR list")
        _, fa, ind = mine[0]
        j = z3.Int(c.fresh("jc"))
        S.holds(f"[{cid}] con.cvrs counts exactly the non-phantom CVRs listing the contest (pointwise indicator, same length)",
                band(icmp("==", fa.length, N), icmp("==", ind.at(j), iite(band(bnot(PH(j)), H[cid](j)), 1, 0))), extra=[j >= 0, j < zi(N)])
        c.assume(icmp("==", got, cvrs_spec[cid].at(iterm(N))))   # extensionality of the sum (same summands, same length)

    def needed(cid):
        for x in CONTESTS:
            link(x)
        return isub(bound[cid], cvrs_spec[cid].at(iterm(N)))
    if use_style:
        for cid in CONTESTS:      # precondition: the bound of a contest is at least the number of CVRs listing it
            c.assume(icmp(">=", isub(bound[cid], cvrs_spec[cid].at(iterm(N))), 0))
    else:
        c.assume(icmp(">=", max_cards, N))
    imax = lambda a, b: iite(icmp(">=", a, b), iterm(a), iterm(b))
    import ast as _ast

    def _is_range_for(st):
        return isinstance(st, _ast.For) and isinstance(st.iter, _ast.Call) and getattr(st.iter.func, "id", None) == "range"

    def _try(f, st):
        try:
            f(st)
            return True
        except NotApplicable:
            return False

    # the three loops are recognised by their shape (so that reordering the style / no-style branches does not matter)
    I.loop_matchers["CVR.make_phantoms"] = [
        (lambda st: _is_range_for(st) and _try(_appended_list, st),
         AppendSummary(S, None, lambda I_, st, env, oldlen: iadd(oldlen, isub(max_cards, N)), "for")),
        (lambda st: isinstance(st, _ast.While) and _try(_appended_list, st),
         AppendSummary(S, None, lambda I_, st, env, oldlen: imax(oldlen, needed(_enclosing_contest(I_, st, env, cons).attrs["id"])), "while")),
        (lambda st: _is_range_for(st) and _try(_indexed_list, st), ListContestSummary(S, cons, needed)),
    ]
    fn = I.get(MOD, "CVR.make_phantoms")
    r, exc = guard(S, I, lambda: I.call(fn, [], {"audit": audit, "contests": {"key of " + k_: v_ for k_, v_ in cons.items()}, "cvr_list": cards, "prefix": "ph-"}))
    if exc:
        return
    out, nph = r
    if not isinstance(out, SymObjList):
        raise NotApplicable("result is not the concatenation of the input list and the phantom list")
    P = mkint(isub(out.length, N))
    S.holds("returned count = number of appended records", icmp("==", nph, P))
    if use_style:            # (without style information the property's clauses do not depend on con.cvrs)
        for cid in CONTESTS:
            link(cid)
    i = z3.Int(c.fresh("orig"))
    c.assume(z3.And(i >= 0, i < zi(N)))
    S.holds("the original records come back first, the same objects", out.at(i) is cards.at(i))
    q = z3.Int(c.fresh("ph"))
    c.assume(z3.And(q >= 0, q < zi(P)))
    rec = out.at(iadd(N, q))
    S.holds("appended records are phantoms", bterm(mkbool(I.truth_term(rec.attrs["phantom"]))))
    q2 = z3.Int(c.fresh("ph2"))
    c.assume(z3.And(q2 >= 0, q2 < zi(P), q2 != q))
    rec2 = out.at(iadd(N, q2))
    S.holds("phantom identifiers are unique", bnot(bterm(mkbool(I.truth_term(I.equal(rec.attrs["id"], rec2.attrs["id"]))))))
    if use_style:
        big = imax(0, imax(needed("A"), needed("B")))
        S.holds("number of phantoms = the largest shortfall", icmp("==", P, big))
        for cid in CONTESTS:
            S.holds(f"[{cid}] phantom q lists the contest exactly when q < cards - cvrs", biff(votes_has(rec, cid), icmp("<", q, needed(cid))))
            S.holds(f"[{cid}] con.cards keeps the given bound", icmp("==", cons[cid].attrs["cards"], bound[cid]))
            # counting lemma (induction): #{q < m : q < k} = min(m, k) for 0 <= k; hence records listing c = cvrs + (cards - cvrs) = cards
            k = needed(cid)
            seg = SymArr(iterm(P), (lambda k: (lambda p: mkint(iite(icmp("<", p, k), 1, 0))))(k), "int").fold("+")
            inst = S.induction(f"[{cid}] #(phantom positions below m that are < k) = min(m, k)",
                               lambda m, seg=seg, k=k: icmp("==", seg.at(m), iite(icmp("<", m, k), iterm(m), iterm(k))), lo=0, hi=iterm(P))
            if inst(iterm(P)):
                S.holds(f"[{cid}] records listing the contest (non-phantom CVRs + phantoms) = the contest's card bound",
                        icmp("==", iadd(cons[cid].attrs["cvrs"], seg.at(iterm(P))), bound[cid]))
            else:
                S.undecided(f"[{cid}] records listing the contest = the contest's card bound")
    else:
        S.holds("total number of records = the stratum's card bound", icmp("==", out.length, max_cards))
        for cid in CONTESTS:
            S.holds(f"[{cid}] the contest's bound becomes the stratum bound", icmp("==", cons[cid].attrs["cards"], max_cards))
            S.holds(f"[{cid}] phantoms list no contest", bnot(votes_has(rec, cid)))


# ------------------------------------------------------------------ C10 (and C07's last clause): lemmas over the consistent_sampling contract

@script(["C10", "C07"], "consistent_sampling/lemmas over its contract: escalation nests selections and extends every contest's data (unbounded)")
def sampling_contract_lemmas(S, I, variant):
    """No code is run here: these are consequences of the contract that the loop-invariant script proves of the real
    consistent_sampling (position j of the sorted list is selected iff some contest c lists it and fewer than n_c earlier
    positions list c; threshold_c = sample number of the position w_c with has_c(w_c) and cnt_c(w_c) = n_c - 1) and of the
    contract of sorted (non-decreasing, here strictly increasing, sample numbers along the sorted list)."""
    c = ctx()
    N = S.integer("N", lo=0)
    has = {cid: z3.Function(f"has_{cid}", z3.IntSort(), z3.BoolSort()) for cid in CONTESTS}
    SN = z3.Function("sn_sorted", z3.IntSort(), z3.RealSort())
    cnt = {cid: SymArr(iterm(N), (lambda cid: (lambda j: mkint(iite(has[cid](zi(j)), 1, 0))))(cid), "int").fold("+") for cid in CONTESTS}
    n1 = {cid: S.integer(f"n1_{cid}", lo=0) for cid in CONTESTS}
    n2 = {cid: S.integer(f"n2_{cid}", lo=0) for cid in CONTESTS}
    for cid in CONTESTS:
        c.assume(icmp("<=", n1[cid], n2[cid]))           # sample sizes do not decrease
    take = lambda n, j: bor(*[band(has[cid](zi(j)), icmp("<", cnt[cid].at(j), n[cid])) for cid in CONTESTS])
    j = z3.Int(c.fresh("j"))
    c.assume(z3.And(j >= 0, j < zi(N)))
    S.holds("every card selected in round 1 is selected in round 2 (redraw with sizes n <= n')", bimp(take(n1, j), take(n2, j)))
    for cid in CONTESTS:
        D = lambda n, q, cid=cid: band(has[cid](zi(q)), icmp("<", cnt[cid].at(q), n[cid]))
        S.holds(f"[{cid}] every observation of round 1 is an observation of round 2", bimp(D(n1, j), D(n2, j)))
        # monotone counts: cnt(j + d) >= cnt(j)  (induction on d)
        i = z3.Int(c.fresh("i"))
        c.assume(z3.And(i >= 0, i < zi(N)))
        d = S.induction(f"[{cid}] counts are monotone along the sorted list", lambda dd, cid=cid: bimp(icmp("<=", iadd(j, dd), N), icmp(">=", cnt[cid].at(iadd(j, dd)), cnt[cid].at(j))), lo=0)
        if d(isub(i, j)):
            S.holds(f"[{cid}] new observations come after all old ones in sample-number order (the old sequence is a prefix of the new one)",
                    bimp(band(D(n1, i), D(n2, j), bnot(D(n1, j))), icmp("<", i, j)))
        else:
            S.undecided(f"[{cid}] new observations come after all old ones")
        # threshold filter of mvrs_to_data: sample number <= threshold  <=>  among the contest's first n_c cards
        w = z3.Int(c.fresh("w"))
        c.assume(z3.And(w >= 0, w < zi(N), has[cid](w), zb(icmp("==", cnt[cid].at(w), isub(n1[cid], 1)))))
        for (a_, b_) in ((j, w), (w, j)):               # contract of sorted + distinct sample numbers, at the two pairs used
            c.assume(z3.Implies(a_ < b_, SN(a_) < SN(b_)))
        dj = S.induction(f"[{cid}] counts are monotone from the threshold card on", lambda dd, cid=cid: bimp(icmp("<=", iadd(iadd(w, 1), dd), N), icmp(">=", cnt[cid].at(iadd(iadd(w, 1), dd)), cnt[cid].at(iadd(w, 1)))), lo=0)
        dw = S.induction(f"[{cid}] counts are monotone up to the threshold card", lambda dd, cid=cid: bimp(icmp("<=", iadd(j, dd), N), icmp(">=", cnt[cid].at(iadd(j, dd)), cnt[cid].at(j))), lo=0)
        if dj(isub(j, iadd(w, 1))) and dw(isub(w, j)):
            S.holds(f"[{cid}] a card listing the contest has sample number <= threshold exactly when it is among the contest's first n_c cards",
                    bimp(has[cid](j), biff(SN(j) <= SN(w), zb(icmp("<", cnt[cid].at(j), n1[cid])))))
        else:
            S.undecided(f"[{cid}] threshold filter")


@script(["C10"], "escalation/lemmas over the test and data contracts: measured risk never increases, confirmed stays confirmed (unbounded)")
def escalation_risk_lemmas(S, I, variant):
    """No code is run here.  From the contracts proved elsewhere: (C07/C10 lemmas) a later round's data for an assertion are the
    earlier data with observations appended; (C05) the history on the extended data agrees with the earlier history on the
    earlier positions; (C11) the reported p-value in random order is the smallest history entry (and at most 1); (C09)
    proved' = (p <= limit) or proved.  Consequences, for every n <= n':"""
    c = ctx()
    n1 = S.integer("n_round1", lo=0)
    n2 = S.integer("n_round2", lo=0)
    c.assume(icmp("<=", n1, n2))
    Hf = z3.Function("history", z3.IntSort(), z3.RealSort())      # the history on the round-2 data; its first n1 entries = round 1's

    def h(j):
        c.assume(z3.And(Hf(zi(j)) >= 0, Hf(zi(j)) <= 1), definitional=True)     # C11: entries in [0,1], not NaN
        return XR(Hf(zi(j)), npk=True)

    RMIN = SymArr(iterm(n2), h, "xr").fold("min1")
    p1, p2 = RMIN.at(iterm(n1)), RMIN.at(iterm(n2))
    mono = S.induction("smallest entry among the first n1+d <= smallest among the first n1",
                       lambda d: bimp(icmp("<=", iadd(n1, d), n2), xcmp("<=", RMIN.at(iadd(n1, d)), RMIN.at(iterm(n1)))), lo=0)
    if mono(isub(n2, n1)):
        S.holds("the measured risk of an assertion does not increase from one round to the next", xcmp("<=", p2, p1))
        rl = S.real("risk_limit", lo_strict=0, hi=Fraction(1, 2))
        proved0 = S.boolean("proved_before_round1")
        proved1 = bor(xcmp("<=", p1, rl), bterm(proved0))
        proved2 = bor(xcmp("<=", p2, rl), proved1)
        S.holds("an assertion confirmed in a round is confirmed in the next (by its p-value alone, and by the sticky flag)",
                band(bimp(proved1, proved2), bimp(xcmp("<=", p1, rl), xcmp("<=", p2, rl))))
    else:
        S.undecided("measured risk does not increase")


@script(["C10", "C17"], "CVR.prep_comparison_sample+prep_polling_sample/post (bounded: n cards; symbolic selection orders, any initial orders)",
        variants=(("n2",), ("n3",)))
def prep_samples_post(S, I, variant):
    """both of the caller's lists end up in selection order (in place), manual record i paired with CVR i"""
    n = int(variant[0][1:])
    c = ctx()
    CVRc = I.get(MOD, "CVR")
    ids = [f"card{i}" for i in range(n)]
    sel = [S.integer(f"selection_order_{i}") for i in range(n)]
    for a, b in itertools.combinations(range(n), 2):
        c.assume(icmp("!=", sel[a], sel[b]))
    so = {ids[i]: {"selection_order": sel[i], "serial": i + 1} for i in range(n)}
    perm_m = S.choose("mvr_order", [list(p) for p in itertools.permutations(range(n))])
    perm_c = S.choose("cvr_order", [list(p) for p in itertools.permutations(range(n))])
    ph = [S.boolean(f"phantom_{i}") for i in range(n)]       # (phantom records are ordinary members of the sample)
    mk = lambda i, tag: Obj(CVRc, {"id": ids[i], "votes": {}, "phantom": ph[i], "pool": False, "tally_pool": None, "sample_num": None,
                                   "p": None, "sampled": False, "card_in_batch": None, "tag": tag})
    mv = [mk(i, "mvr") for i in perm_m]
    cv = [mk(i, "cvr") for i in perm_c]
    mv0, cv0 = mv, cv
    _, exc = guard(S, I, lambda: I.call(I.get(MOD, "CVR.prep_comparison_sample"), [mv, cv, so], {}))
    if exc:
        return
    # expected order decided on the spec side
    order = []
    for i in range(n):
        pos = len(order)
        while pos > 0 and c.decide(icmp("<", sel[i], sel[order[pos - 1]])):
            pos -= 1
        order.insert(pos, i)
    want = [ids[i] for i in order]
    S.holds("both of the caller's lists are in selection order, paired by identifier",
            [x.attrs["id"] for x in mv0] == want and [x.attrs["id"] for x in cv0] == want)
    pm = [mk(i, "mvr") for i in perm_m]
    pm0 = pm
    _, exc = guard(S, I, lambda: I.call(I.get(MOD, "CVR.prep_polling_sample"), [pm, so], {}))
    if exc:
        return
    S.holds("prep_polling_sample: the caller's list is in selection order", [x.attrs["id"] for x in pm0] == want)
