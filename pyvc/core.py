"""pyvc core: symbolic scalar domain (extended reals with NaN, ints, bools) over z3 terms.

Semantics assumed (reported in every evidence file):
  * int  = mathematical integers
  * float / np.float64 = extended real line with NaN: fin(r) | +inf | -inf | nan, IEEE rules for the special
    values, EXACT arithmetic on finite values; no rounding, overflow, underflow or signed zero.
Components of a value are either Python constants (bool / Fraction) or z3 terms; smart constructors fold
constants so that obligations over values known to be finite collapse to plain real arithmetic.
"""
import z3
from fractions import Fraction


class VerifError(Exception):
    """engine error (unsupported construct etc.) -> exit 3, never a verdict"""


class Unsupported(VerifError):
    pass


class NotApplicable(Exception):
    """raised by an (unbounded) proof script whose loop summaries / invariants do not fit the shape of the current code:
    the script is skipped and reported as such; the property stays decided by the other scripts and bounded stand-ins"""
    pass


class PathInfeasible(Exception):
    pass


class PyRaise(Exception):
    """the interpreted program raised an exception on this path"""

    def __init__(self, exc_type, msg=""):
        super().__init__(f"{exc_type}: {msg}")
        self.exc_type = exc_type
        self.msg = msg


# ---------------------------------------------------------------- nonlinear abstraction

_nl_funcs = {}


def _nlf(name, sorts):
    key = (name,) + tuple(str(x) for x in sorts)
    if key not in _nl_funcs:
        _nl_funcs[key] = z3.Function("nl_" + name + "_" + "_".join(str(x) for x in sorts), *sorts)
    return _nl_funcs[key]


def abstract_nl(terms, memo=None):
    """replace nonlinear products / quotients by uninterpreted functions (sound for validity: if the abstracted
    query is unsat so is the original).  Commutativity is normalised by ordering the factors."""
    if memo is None:
        memo = {}

    def rec(t):
        tid = t.get_id()
        if tid in memo:
            return memo[tid][1]
        if z3.is_app(t):
            kids = [rec(c) for c in t.children()]
            k = t.decl().kind()
            if k == z3.Z3_OP_MUL:
                nums = [c for c in kids if z3.is_rational_value(c) or z3.is_int_value(c)]
                rest = [c for c in kids if not (z3.is_rational_value(c) or z3.is_int_value(c))]
                if len(rest) >= 2:
                    rest.sort(key=lambda c: c.get_id())
                    acc = rest[0]
                    for c in rest[1:]:
                        f = _nlf("mul", (acc.sort(), c.sort(), acc.sort()))
                        acc = f(acc, c)
                    for nmr in nums:
                        acc = nmr * acc
                    r = acc
                else:
                    r = t.decl()(*kids) if kids else t
            elif k in (z3.Z3_OP_DIV, z3.Z3_OP_IDIV, z3.Z3_OP_MOD, z3.Z3_OP_REM, z3.Z3_OP_POWER) and not (
                    z3.is_rational_value(kids[1]) or z3.is_int_value(kids[1])):
                f = _nlf({z3.Z3_OP_DIV: "div", z3.Z3_OP_IDIV: "idiv", z3.Z3_OP_MOD: "mod", z3.Z3_OP_REM: "rem",
                          z3.Z3_OP_POWER: "pow"}[k], (kids[0].sort(), kids[1].sort(), t.sort()))
                r = f(kids[0], kids[1])
            elif kids:
                try:
                    r = t.decl()(*kids)
                except Exception:
                    r = t
            else:
                r = t
        else:
            r = t
        memo[tid] = (t, r)      # keep t alive: ast ids are reused after garbage collection
        return r

    def simp(t):
        k = ("s", t.get_id())
        if k not in memo:
            memo[k] = (t, z3.simplify(t))
        return memo[k][1]

    return [rec(simp(t)) for t in terms]



# ---------------------------------------------------------------- context

class Ctx:
    cur = None

    def __init__(self, prefix=()):
        self.prefix = list(prefix)
        self.decisions = []
        self.forks = set()
        self.pc = []          # path condition (z3 Bool terms)
        self.facts = []       # instantiated axioms / assumed contract facts
        self.counter = 0
        self.trace = []
        self.feas_timeout_ms = 3000
        self.allowed_raise = None
        self.stats = {"feas_checks": 0}
        self.concrete = False  # concrete replay mode: decisions evaluated by model
        self.fold_flags = True
        self._fcache = {}
        self._qs = None

    def fresh(self, base):
        self.counter += 1
        return f"{base}!{self.counter}"

    def scope(self):
        """temporary hypotheses (e.g. of an induction step): everything assumed inside is dropped on exit"""
        c = self

        class _Scope:
            def __enter__(self_):
                self_.nf, self_.np = len(c.facts), len(c.pc)
                return c

            def __exit__(self_, *a):
                del c.facts[self_.nf:]
                del c.pc[self_.np:]
                c._fcache = {}
                c._qs = None
                return False

        return _Scope()

    def known_true(self, b):
        if isinstance(b, bool):
            return b
        return self.known_false(z3.Not(b))

    # -- context-aware folding of special-value flags ------------------
    def known_false(self, b):
        """True iff the current hypotheses imply  not b  (cheap incremental query, cached; unknown -> False)"""
        if not self.fold_flags:
            return False
        h = tid(b)
        hit = self._fcache.get(h)
        if hit is not None and hit[0] == (len(self.pc), len(self.facts)) :
            return hit[1]
        if hit is not None and hit[1]:
            return True            # hypotheses only grow along a path: once implied, always implied
        s = self._q_sync()
        s.push()
        s.add(abstract_nl([b], self._absmemo)[0])
        r = s.check() == z3.unsat
        s.pop()
        self.stats["fold_queries"] = self.stats.get("fold_queries", 0) + 1
        self._fcache[h] = ((len(self.pc), len(self.facts)), r)
        return r

    def _q_sync(self):
        """the incremental solver of known_false, brought up to date with the current hypotheses"""
        s = self._qs
        if s is None:
            s = self._qs = z3.Solver()
            s.set("rlimit", 400000)
            self._sync = [0, 0]
            self._absmemo = {}
        new = self.pc[self._sync[0]:] + self.facts[self._sync[1]:]
        if new:
            for h_ in abstract_nl(new, self._absmemo):
                s.add(h_)
        self._sync = [len(self.pc), len(self.facts)]
        return s

    def assume(self, b, definitional=False):
        """definitional: an axiom about a freshly created symbol (range of a fresh value, well-formedness of a fresh extended
        real): it stays unconditional when added inside a merged evaluation (the symbol is memoised and read on other sub-paths)"""
        b = zb(b)
        if z3.is_true(b):
            return
        if definitional:
            self.__dict__.setdefault("_defs", set()).add(tid(b))
        self.facts.append(b)

    def add_pc(self, b):
        b = zb(b)
        if z3.is_true(b):
            return
        self.pc.append(b)

    def hyps(self):
        return list(self.pc) + list(self.facts)

    # -- branching ---------------------------------------------------
    def decide(self, cond):
        """cond: bool or z3 Bool.  Returns a Python bool; forks via the decision trail."""
        if isinstance(cond, bool):
            return cond
        cond = z3.simplify(cond)
        if z3.is_true(cond):
            return True
        if z3.is_false(cond):
            return False
        k = len(self.decisions)
        if k < len(self.prefix):
            d = self.prefix[k]
            self.decisions.append(d)
            self.pc.append(cond if d else z3.Not(cond))
            return d
        self.instantiate_pending()
        # new decision: check which sides are feasible.  Every symbolic decision is recorded in the trail (so a
        # replayed prefix lines up); only genuine forks (both sides feasible) get an alternative explored.
        can_t = self.feasible(cond)
        can_f = self.feasible(z3.Not(cond))
        if can_t and can_f:
            self.forks.add(k)
            self.decisions.append(True)
            self.pc.append(cond)
            return True
        if can_t:
            self.decisions.append(True)
            self.pc.append(cond)
            return True
        if can_f:
            self.decisions.append(False)
            self.pc.append(z3.Not(cond))
            return False
        raise PathInfeasible()

    def merged(self, thunk, max_paths=512):
        """run a PURE computation on every one of its paths (a local depth-first search over its own decisions) and return
        [(path condition, ("value", v) | ("raise", exc))].  Facts assumed inside are kept as implications of the sub-path
        condition.  The caller combines the outcomes into one if-then-else value instead of forking the enclosing path."""
        out, kept = [], []
        stack = [[]]
        outer = (self.decisions, self.prefix, self.forks)
        npc, nf = len(self.pc), len(self.facts)
        qs = self._q_sync() if self.fold_flags else None
        saved_sync = list(self._sync) if qs is not None else None
        saved_cache = dict(self._fcache)
        try:
            while stack:
                pre = stack.pop()
                self.decisions, self.prefix, self.forks = [], pre, set()
                res = None
                if qs is not None:
                    qs.push()
                try:
                    try:
                        res = ("value", thunk())
                    except PathInfeasible:
                        res = None
                    except PyRaise as e:
                        res = ("raise", e)
                finally:
                    conds = list(self.pc[npc:])
                    newfacts = list(self.facts[nf:])
                    del self.pc[npc:]
                    del self.facts[nf:]
                    if qs is not None and self._qs is qs:
                        qs.pop()
                        self._sync = list(saved_sync)
                    else:
                        self._qs = None
                    self._fcache = dict(saved_cache)
                pcnd = z3.And(*conds) if len(conds) > 1 else (conds[0] if conds else z3.BoolVal(True))
                defs = self.__dict__.get("_defs", ())
                kept.extend((f if tid(f) in defs else z3.Implies(pcnd, f)) for f in newfacts)
                if res is not None:
                    out.append((pcnd, res))
                for k in range(len(pre), len(self.decisions)):
                    if k in self.forks:
                        stack.append(self.decisions[:k] + [False])
                if len(out) > max_paths:
                    raise Unsupported("too many paths in a merged computation")
        finally:
            self.decisions, self.prefix, self.forks = outer
        for f in kept:
            self.facts.append(f)
        return out

    def instantiate_pending(self):
        """registered universal facts are instantiated at the witness indices before a new branch is judged feasible"""
        try:
            from .values import instantiate_universals
            instantiate_universals(self)
        except ImportError:
            pass

    def feasible(self, extra):
        """path pruning: infeasible only if the hypotheses with nonlinear terms abstracted are unsatisfiable
        (sound: a spuriously feasible path only costs work, its obligations are still checked)"""
        self.stats["feas_checks"] += 1
        if self.known_false(extra):
            return False
        return True


def ctx():
    return Ctx.cur


_alive = {}


def tid(t):
    """unique key of a z3 term (ast id; the term is kept alive so the id cannot be reused). z3's hash() collides."""
    i = t.get_id()
    c = Ctx.cur
    store = c.__dict__.setdefault('_alive', {}) if c is not None else _alive
    if i not in store:
        store[i] = t
    return i


# ---------------------------------------------------------------- bool helpers

def zb(b):
    if isinstance(b, bool):
        return z3.BoolVal(b)
    if isinstance(b, SBool):
        return zb(b.t)
    return b


def _isT(b):
    return b is True or (not isinstance(b, bool) and z3.is_true(b))


def _isF(b):
    return b is False or (not isinstance(b, bool) and z3.is_false(b))


def band(*xs):
    out = []
    for x in xs:
        if _isF(x):
            return False
        if _isT(x):
            continue
        out.append(x)
    if not out:
        return True
    return out[0] if len(out) == 1 else z3.And(*out)


def bor(*xs):
    out = []
    for x in xs:
        if _isT(x):
            return True
        if _isF(x):
            continue
        out.append(x)
    if not out:
        return False
    return out[0] if len(out) == 1 else z3.Or(*out)


def bnot(x):
    if _isT(x):
        return False
    if _isF(x):
        return True
    return z3.Not(x)


def bimp(a, b):
    return bor(bnot(a), b)


def biff(a, b):
    if isinstance(a, bool) and isinstance(b, bool):
        return a == b
    if _isT(a):
        return b
    if _isT(b):
        return a
    if _isF(a):
        return bnot(b)
    if _isF(b):
        return bnot(a)
    return zb(a) == zb(b)


def bite(c, a, b):
    """if-then-else over bools"""
    if _isT(c):
        return a
    if _isF(c):
        return b
    if isinstance(a, bool) and isinstance(b, bool) and a == b:
        return a
    return z3.If(c, zb(a), zb(b))


# ---------------------------------------------------------------- real / int term helpers

def is_py_num(v):
    return isinstance(v, (int, Fraction)) and not isinstance(v, bool)


def zr(v):
    """to z3 Real term"""
    if isinstance(v, bool):
        v = int(v)
    if isinstance(v, int):
        return z3.RealVal(v)
    if isinstance(v, Fraction):
        return z3.RealVal(str(v.numerator) + "/" + str(v.denominator)) if v.denominator != 1 else z3.RealVal(v.numerator)
    if isinstance(v, float):
        return zr(Fraction(v))
    if z3.is_int(v):
        return z3.ToReal(v)
    return v


def zi(v):
    if isinstance(v, bool):
        return z3.IntVal(int(v))
    if isinstance(v, int):
        return z3.IntVal(v)
    if isinstance(v, SInt):
        return zi(v.t)
    return v


def _num_val(t):
    """python Fraction of a z3 numeral, else None"""
    if is_py_num(t):
        return Fraction(t)
    if z3.is_rational_value(t):
        return Fraction(t.numerator_as_long(), t.denominator_as_long())
    if z3.is_int_value(t):
        return Fraction(t.as_long())
    return None


def radd(a, b):
    if is_py_num(a) and is_py_num(b):
        return Fraction(a) + Fraction(b)
    if is_py_num(a) and a == 0:
        return b
    if is_py_num(b) and b == 0:
        return a
    return zr(a) + zr(b)


def rsub(a, b):
    if is_py_num(a) and is_py_num(b):
        return Fraction(a) - Fraction(b)
    if is_py_num(b) and b == 0:
        return a
    return zr(a) - zr(b)


def rneg(a):
    if is_py_num(a):
        return -Fraction(a)
    return -zr(a)


def rmul(a, b):
    if is_py_num(a) and is_py_num(b):
        return Fraction(a) * Fraction(b)
    if is_py_num(a):
        if a == 0:
            return Fraction(0)
        if a == 1:
            return b
    if is_py_num(b):
        if b == 0:
            return Fraction(0)
        if b == 1:
            return a
    return zr(a) * zr(b)


def rdiv(a, b):
    """total division: x/0 := 0 (callers guard the zero case by flags)"""
    if is_py_num(b):
        if b == 0:
            return Fraction(0)
        if is_py_num(a):
            return Fraction(a) / Fraction(b)
        if b == 1:
            return a
        return zr(a) / zr(b)
    zbb = zr(b)
    return z3.If(zbb == 0, z3.RealVal(0), zr(a) / zbb)


def rdiv_nz(a, b):
    """division by a term known to be nonzero"""
    if is_py_num(b):
        return rdiv(a, b)
    return zr(a) / zr(b)


def rcmp(op, a, b):
    if is_py_num(a) and is_py_num(b):
        a, b = Fraction(a), Fraction(b)
        return {"<": a < b, "<=": a <= b, "==": a == b, "!=": a != b, ">": a > b, ">=": a >= b}[op]
    za, zb_ = zr(a), zr(b)
    return {"<": za < zb_, "<=": za <= zb_, "==": za == zb_, "!=": za != zb_, ">": za > zb_, ">=": za >= zb_}[op]


def rite(c, a, b):
    if _isT(c):
        return a
    if _isF(c):
        return b
    if is_py_num(a) and is_py_num(b) and a == b:
        return a
    return z3.If(c, zr(a), zr(b))


# ---------------------------------------------------------------- SBool / SInt

class SBool:
    __slots__ = ("t",)

    def __init__(self, t):
        self.t = t

    def __repr__(self):
        return f"SBool({self.t})"


def mkbool(b):
    """normalise to python bool or SBool"""
    if isinstance(b, SBool):
        b = b.t
    if isinstance(b, bool):
        return b
    if z3.is_true(b):
        return True
    if z3.is_false(b):
        return False
    return SBool(b)


def bterm(b):
    """underlying bool|z3 term of a python bool / SBool"""
    if isinstance(b, SBool):
        return b.t
    return b


class SInt:
    __slots__ = ("t",)

    def __init__(self, t):
        self.t = t

    def __repr__(self):
        return f"SInt({self.t})"


def mkint(t):
    if isinstance(t, SInt):
        t = t.t
    if isinstance(t, bool):
        return int(t)
    if isinstance(t, int):
        return t
    if z3.is_int_value(t):
        return t.as_long()
    return SInt(t)


def iterm(v):
    if isinstance(v, SInt):
        return v.t
    if isinstance(v, bool):
        return int(v)
    return v


def is_intlike(v):
    return isinstance(v, (int, SInt)) and not isinstance(v, bool) or isinstance(v, bool)


def iadd(a, b):
    a, b = iterm(a), iterm(b)
    if isinstance(a, int) and isinstance(b, int):
        return a + b
    if isinstance(a, int) and a == 0:
        return b
    if isinstance(b, int) and b == 0:
        return a
    return zi(a) + zi(b)


def isub(a, b):
    a, b = iterm(a), iterm(b)
    if isinstance(a, int) and isinstance(b, int):
        return a - b
    if isinstance(b, int) and b == 0:
        return a
    if isinstance(b, int):
        return zi(a) + zi(-b)      # canonical form: the same term as iadd(a, -b)
    return zi(a) - zi(b)


def imul(a, b):
    a, b = iterm(a), iterm(b)
    if isinstance(a, int) and isinstance(b, int):
        return a * b
    if isinstance(a, int) and a == 1:
        return b
    if isinstance(b, int) and b == 1:
        return a
    return zi(a) * zi(b)


def icmp(op, a, b):
    a, b = iterm(a), iterm(b)
    if isinstance(a, int) and isinstance(b, int):
        return {"<": a < b, "<=": a <= b, "==": a == b, "!=": a != b, ">": a > b, ">=": a >= b}[op]
    za, zb_ = zi(a), zi(b)
    return {"<": za < zb_, "<=": za <= zb_, "==": za == zb_, "!=": za != zb_, ">": za > zb_, ">=": za >= zb_}[op]


def iite(c, a, b):
    a, b = iterm(a), iterm(b)
    if _isT(c):
        return a
    if _isF(c):
        return b
    if isinstance(a, int) and isinstance(b, int) and a == b:
        return a
    return z3.If(c, zi(a), zi(b))


# ---------------------------------------------------------------- extended reals

class XR:
    """extended real with NaN.  nan/pinf/ninf: bool|z3 Bool (at most one true); v: Fraction|z3 Real (meaningful iff finite).
    npk: True when the value is a numpy scalar/array element (division by zero follows IEEE instead of raising)."""
    __slots__ = ("nan", "pinf", "ninf", "v", "npk", "int_of", "recip_of")

    def __init__(self, v, nan=False, pinf=False, ninf=False, npk=False):
        self.v = v
        self.nan = nan
        self.pinf = pinf
        self.ninf = ninf
        self.npk = npk
        self.int_of = None      # the integer term this value was converted from (exact)
        self.recip_of = None    # the value whose reciprocal this is (1/(1/c) = c in the exact model)

    # constructors
    @staticmethod
    def const(c, npk=False):
        if isinstance(c, XR):
            return c
        if isinstance(c, SInt):
            r = XR(zr(c.t), npk=npk)
            r.int_of = c
            return r
        if isinstance(c, bool):
            return XR(Fraction(int(c)), npk=npk)
        if isinstance(c, (int, Fraction)):
            return XR(Fraction(c), npk=npk)
        if isinstance(c, float):
            if c != c:
                return XR(Fraction(0), nan=True, npk=npk)
            if c == float("inf"):
                return XR(Fraction(0), pinf=True, npk=npk)
            if c == float("-inf"):
                return XR(Fraction(0), ninf=True, npk=npk)
            return XR(Fraction(c), npk=npk)
        if isinstance(c, SBool):
            return XR(z3.If(c.t, z3.RealVal(1), z3.RealVal(0)), npk=npk)
        if isinstance(c, z3.ExprRef):
            return XR(zr(c), npk=npk)
        raise Unsupported(f"XR.const of {type(c)}")

    @staticmethod
    def finvar(name, npk=False):
        return XR(z3.Real(name), npk=npk)

    @staticmethod
    def var(name, npk=False):
        """fully general extended real (may be nan / +-inf)"""
        x = XR(z3.Real(name), z3.Bool(name + ".nan"), z3.Bool(name + ".pinf"), z3.Bool(name + ".ninf"), npk=npk)
        c = ctx()
        if c is not None:
            c.assume(x.wf(), definitional=True)
        return x

    def wf(self):
        return band(bnot(band(self.nan, self.pinf)), bnot(band(self.nan, self.ninf)), bnot(band(self.pinf, self.ninf)))

    def asnp(self):
        return XR(self.v, self.nan, self.pinf, self.ninf, True)

    # predicates
    def fin(self):
        return band(bnot(self.nan), bnot(self.pinf), bnot(self.ninf))

    def inf(self):
        return bor(self.pinf, self.ninf)

    def zero(self):
        return band(self.fin(), rcmp("==", self.v, 0))

    def pos(self):
        return bor(self.pinf, band(self.fin(), rcmp(">", self.v, 0)))

    def neg_(self):
        return bor(self.ninf, band(self.fin(), rcmp("<", self.v, 0)))

    def is_const(self):
        return all(isinstance(f, bool) for f in (self.nan, self.pinf, self.ninf)) and is_py_num(self.v)

    def __repr__(self):
        if self.is_const():
            if self.nan:
                return "XR(nan)"
            if self.pinf:
                return "XR(+inf)"
            if self.ninf:
                return "XR(-inf)"
            return f"XR({self.v})"
        return f"XR(v={self.v}, nan={self.nan}, pinf={self.pinf}, ninf={self.ninf})"


def xr(v):
    return v if isinstance(v, XR) else XR.const(v)


def ff(b):
    """fold a special-value flag to False when the hypotheses exclude it"""
    if isinstance(b, bool):
        return b
    sb = z3.simplify(b)
    if z3.is_true(sb):
        return True
    if z3.is_false(sb):
        return False
    c = Ctx.cur
    if c is not None and c.known_false(sb):
        return False
    return b       # keep the original (un-normalised) term: later syntactic substitution relies on term identity


def mkxr(v, nan, pinf, ninf, npk):
    return XR(v, nan, pinf, ninf, npk)


def _npk(a, b):
    return a.npk or b.npk


def xadd(a, b):
    a, b = xr(a), xr(b)
    nan = bor(a.nan, b.nan, band(a.pinf, b.ninf), band(a.ninf, b.pinf))
    pinf = band(bnot(nan), bor(a.pinf, b.pinf))
    ninf = band(bnot(nan), bor(a.ninf, b.ninf))
    return mkxr(radd(a.v, b.v), nan, pinf, ninf, _npk(a, b))


def xneg(a):
    a = xr(a)
    return XR(rneg(a.v), a.nan, a.ninf, a.pinf, a.npk)


def xsub(a, b):
    return xadd(a, xneg(b))


def xmul(a, b):
    a, b = xr(a), xr(b)
    ainf, binf = a.inf(), b.inf()
    nan = bor(a.nan, b.nan, band(ainf, b.zero()), band(binf, a.zero()))
    anyinf = bor(ainf, binf)
    if _isF(anyinf):
        return mkxr(rmul(a.v, b.v), nan, False, False, _npk(a, b))
    posr = bor(band(a.pos(), b.pos()), band(a.neg_(), b.neg_()))
    pinf = band(bnot(nan), anyinf, posr)
    ninf = band(bnot(nan), anyinf, bnot(posr))
    return mkxr(rmul(a.v, b.v), nan, pinf, ninf, _npk(a, b))


def xdiv_np(a, b):
    """IEEE-style division (numpy operands): x/0 = +-inf, 0/0 = nan, x/inf = 0 (zeros unsigned)"""
    a, b = xr(a), xr(b)
    if a.is_const() and a.fin() is True and a.v == 1 and b.recip_of is not None:
        return b.recip_of          # 1/(1/c) = c for finite non-zero c (exact arithmetic)
    bz = b.zero()
    if b.fin() is True:
        bz = ff(bz)        # division by a finite term the hypotheses show to be nonzero: no special values arise
    az = a.zero()
    ainf, binf = a.inf(), b.inf()
    nan = bor(a.nan, b.nan, band(az, bz), band(ainf, binf))
    # infinite results
    inf_from_zero = band(bz, bnot(az), bnot(a.nan))           # sign of a
    inf_from_a = band(ainf, b.fin(), bnot(bz))                # sign a * sign b
    pinf = band(bnot(nan), bor(band(inf_from_zero, a.pos()),
                               band(inf_from_a, bor(band(a.pinf, b.pos()), band(a.ninf, b.neg_())))))
    ninf = band(bnot(nan), bor(band(inf_from_zero, a.neg_()),
                               band(inf_from_a, bor(band(a.pinf, b.neg_()), band(a.ninf, b.pos())))))
    v = rite(binf, Fraction(0), rdiv(a.v, b.v) if not _isF(bz) else rdiv_nz(a.v, b.v))
    r = mkxr(v, nan, pinf, ninf, True)
    if a.is_const() and a.fin() is True and a.v == 1 and b.fin() is True and _isF(bz):
        r.recip_of = b
    return r


def xdiv(a, b):
    """Python '/' : raises ZeroDivisionError when both operands are Python scalars and b == 0."""
    a, b = xr(a), xr(b)
    if a.npk or b.npk:
        return xdiv_np(a, b)
    if a.is_const() and a.fin() is True and a.v == 1 and b.recip_of is not None:
        return b.recip_of
    bz = b.zero()
    if not _isF(bz):
        if ctx().decide(bz):
            raise PyRaise("ZeroDivisionError", "float division by zero")
    r = xdiv_np(a, b)
    if r.recip_of is None and r.int_of is None:
        r.npk = False
    else:
        r2 = XR(r.v, r.nan, r.pinf, r.ninf, False)
        r2.recip_of, r2.int_of = r.recip_of, r.int_of
        r = r2
    return r


def xcmp(op, a, b):
    """comparison -> bool|z3 Bool; any comparison with NaN is False except !="""
    a, b = xr(a), xr(b)
    nonan = band(bnot(a.nan), bnot(b.nan))
    fin2 = band(a.fin(), b.fin())
    if op == "<":
        return band(nonan, bor(band(a.ninf, bnot(b.ninf)), band(b.pinf, bnot(a.pinf)), band(fin2, rcmp("<", a.v, b.v))))
    if op == "<=":
        return band(nonan, bor(a.ninf, b.pinf, band(fin2, rcmp("<=", a.v, b.v))))
    if op == ">":
        return xcmp("<", b, a)
    if op == ">=":
        return xcmp("<=", b, a)
    if op == "==":
        return band(nonan, bor(band(a.pinf, b.pinf), band(a.ninf, b.ninf), band(fin2, rcmp("==", a.v, b.v))))
    if op == "!=":
        return bnot(xcmp("==", a, b))
    raise Unsupported(op)


def xsame(a, b):
    """identity of extended-real values (NaN is the same as NaN)"""
    a, b = xr(a), xr(b)
    return band(biff(a.nan, b.nan), biff(a.pinf, b.pinf), biff(a.ninf, b.ninf),
                bimp(band(a.fin(), b.fin()), rcmp("==", a.v, b.v)))


def xite(c, a, b):
    a, b = xr(a), xr(b)
    if _isT(c):
        return a
    if _isF(c):
        return b
    return XR(rite(c, a.v, b.v), bite(c, a.nan, b.nan), bite(c, a.pinf, b.pinf), bite(c, a.ninf, b.ninf), a.npk or b.npk)


def xminimum(a, b):
    """np.minimum: NaN propagates"""
    a, b = xr(a), xr(b)
    r = xite(xcmp("<=", a, b), a, b)
    nan = bor(a.nan, b.nan)
    return XR(r.v, nan, band(bnot(nan), r.pinf), band(bnot(nan), r.ninf), True)


def xmaximum(a, b):
    a, b = xr(a), xr(b)
    r = xite(xcmp(">=", a, b), a, b)
    nan = bor(a.nan, b.nan)
    return XR(r.v, nan, band(bnot(nan), r.pinf), band(bnot(nan), r.ninf), True)


def xmin_py(a, b):
    """builtin min(a, b): returns b if b < a else a"""
    a, b = xr(a), xr(b)
    return xite(xcmp("<", b, a), b, a)


def xmax_py(a, b):
    a, b = xr(a), xr(b)
    return xite(xcmp(">", b, a), b, a)


def xabs(a):
    a = xr(a)
    return XR(rite(rcmp("<", a.v, 0), rneg(a.v), a.v), a.nan, bor(a.pinf, a.ninf), False, a.npk)


def xsqrt(a):
    """np.sqrt: NaN for negative; fresh s >= 0 with s*s = a for finite a >= 0"""
    a = xr(a)
    if a.is_const() and not (a.nan or a.pinf or a.ninf):
        # exact root of a perfect square
        import math
        n, d = a.v.numerator, a.v.denominator
        if n >= 0 and math.isqrt(n) ** 2 == n and math.isqrt(d) ** 2 == d:
            return XR(Fraction(math.isqrt(n), math.isqrt(d)), npk=True)
    c = ctx()
    # sqrt as an uninterpreted function with its defining axiom instantiated at each argument: equal arguments give
    # equal roots by congruence
    s = SQRT_F(zr(a.v))
    okarg = band(a.fin(), rcmp(">=", a.v, 0))
    c.assume(bimp(okarg, band(s >= 0, s * s == zr(a.v))))
    nan = bor(a.nan, a.ninf, band(a.fin(), rcmp("<", a.v, 0)))
    return XR(s, nan, a.pinf, False, True)


SQRT_F = z3.Function("sqrt_r", z3.RealSort(), z3.RealSort())


def xisclose(a, b, atol, rtol):
    """np.isclose(a, b, rtol, atol): |a-b| <= atol + rtol*|b|; equal infinities are close; NaN never"""
    a, b, atol, rtol = xr(a), xr(b), xr(atol), xr(rtol)
    fin2 = band(a.fin(), b.fin())
    diff = xabs(xsub(a, b))
    bound = xadd(atol, xmul(rtol, xabs(b)))
    return bor(band(fin2, rcmp("<=", diff.v, bound.v)), band(a.pinf, b.pinf), band(a.ninf, b.ninf))


def xisfinite(a):
    return xr(a).fin()


def x_from_bool(b):
    b = bterm(b)
    if isinstance(b, bool):
        return XR(Fraction(int(b)))
    return XR(z3.If(b, z3.RealVal(1), z3.RealVal(0)))


# concrete evaluation helpers ------------------------------------------------

def model_eval_xr(model, x):
    """XR -> python float (nan/inf aware) under a z3 model"""
    x = xr(x)

    def ev_b(b):
        if isinstance(b, bool):
            return b
        return z3.is_true(model.eval(b, model_completion=True))

    if ev_b(x.nan):
        return float("nan")
    if ev_b(x.pinf):
        return float("inf")
    if ev_b(x.ninf):
        return float("-inf")
    return num_to_fraction(model, x.v)


def num_to_fraction(model, v):
    if is_py_num(v):
        return Fraction(v)
    r = model.eval(zr(v), model_completion=True)
    if z3.is_rational_value(r):
        return Fraction(r.numerator_as_long(), r.denominator_as_long())
    if z3.is_int_value(r):
        return Fraction(r.as_long())
    if z3.is_algebraic_value(r):
        a = r.approx(30)
        return Fraction(a.numerator_as_long(), a.denominator_as_long())
    raise VerifError(f"cannot evaluate {v} -> {r}")
