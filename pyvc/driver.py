"""run proof scripts (one script = one job)"""
import importlib
import time
import traceback
from .core import *
from .interp import Interp
from .script import Script
from .vc import explore


def run_script(desc, mode="proof", sizes=None, pinned=None, native=None, repo=None):
    S = Script(desc["name"], mode=mode, sizes=sizes, pinned=pinned, native=native)
    I = Interp(repo)
    t0 = time.time()
    err = None

    def path(c):
        I.contracts.clear()
        I.invariants.clear()
        I.loop_matchers.clear()
        if hasattr(I, "trace"):
            I.trace.clear()
        S.inputs.clear()
        S.input_order.clear()
        try:
            desc["fn"](S, I, desc["variant"])
        except PyRaise as e:
            # an exception escaping the script itself (typically on a path that is infeasible but was not pruned)
            S.structural_failure("script-level " + e.exc_type + ": " + e.msg[:60])

    try:
        explore(path, S)
    except NotApplicable as e:
        err = ("not-applicable", str(e))
        S.results.clear()
    except Unsupported as e:
        err = ("unsupported", str(e))
    except VerifError as e:
        err = ("engine", str(e))
    except Exception as e:
        err = ("crash", traceback.format_exc()[-1500:])
    S.wall = time.time() - t0
    S.error = err
    S.dropped = dict(I.dropped)
    S.executed = dict(I.executed)
    return S
