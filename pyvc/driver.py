"""run proof scripts (one script = one job)"""
import importlib
import time
import traceback
from .core import *
from .interp import Interp
from .script import Script
from .vc import explore


def run_script(desc, mode="proof", sizes=None, pinned=None, native=None, repo=None):
    S = Script(desc["name"], mode=mode, sizes=sizes, pinned=pinned, native=native)
    I = Interp(repo)
    S.path_sat = {}
    t0 = time.time()
    err = None

    def path(c):
        I.contracts.clear()
        I.invariants.clear()
        I.loop_matchers.clear()
        if hasattr(I, "trace"):
            I.trace.clear()
        S.inputs.clear()
        S.input_order.clear()
        try:
            desc["fn"](S, I, desc["variant"])
        except PyRaise as e:
            # an exception escaping the script itself (typically on a path that is infeasible but was not pruned)
            S.structural_failure("script-level " + e.exc_type + ": " + e.msg[:60])
        # vacuity guard, every path of every script: "False" must not be provable from the path's hypotheses (nonlinear terms
        # abstracted, deterministic resource limit).  Paths whose hypotheses are contradictory are counted separately; a script
        # none of whose paths is satisfiable is an error (exit 3), never a success.
        try:
            import z3 as _z3
            sv = _z3.Solver()
            sv.set("rlimit", 3000000)
            for h in abstract_nl(c.hyps(), c.__dict__.setdefault("_absmemo_prove", {})):
                sv.add(h)
            r = str(sv.check())
        except Exception:
            r = "unknown"
        S.path_sat[r] = S.path_sat.get(r, 0) + 1

    try:
        explore(path, S)
    except NotApplicable as e:
        err = ("not-applicable", str(e))
        S.results.clear()
    except Unsupported as e:
        err = ("unsupported", str(e))
    except VerifError as e:
        err = ("engine", str(e))
    except Exception as e:
        err = ("crash", traceback.format_exc()[-1500:])
    S.wall = time.time() - t0
    if err is None and S.results and not (S.path_sat.get("sat") or S.path_sat.get("unknown")):
        err = ("engine", "vacuous: the hypotheses of every path of this script are contradictory")
    S.error = err
    S.dropped = dict(I.dropped)
    S.executed = dict(I.executed)
    return S
