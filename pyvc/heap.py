"""Symbolic heap values for records: dicts with symbolic presence, opaque marks, symbolic maps, symbolic CVR builder."""
import z3
from fractions import Fraction
from .core import *
from .core import _isT, _isF
from .values import *


class Mark:
    """a ballot mark of unknown encoding: only its truthiness is observable (any other use is an unsupported construct)"""

    def __init__(self, name=None, truth=None):
        self.truth = z3.Bool(name) if truth is None else truth
        self.name = name

    def truth_term(self):
        return self.truth

    def py_str(self, I):
        return "<mark>"

    def __repr__(self):
        return f"Mark({self.truth})"


class OptDict:
    """dict over a closed universe of concrete keys, each present under a symbolic condition (insertion order = key order)"""

    def __init__(self, keys=(), pres=None, vals=None):
        self.keys = list(keys)
        self.pres = dict(pres or {})
        self.vals = dict(vals or {})

    # -- interpreter hooks ------------------------------------------------
    def has(self, k):
        return self.pres.get(k, False)

    def py_contains(self, I, item):
        k = I.concrete_key(item)
        return mkbool(self.has(k))

    def py_getitem(self, I, key):
        k = I.concrete_key(key)
        p = self.has(k)
        if not ctx().decide(bterm(p)):
            raise PyRaise("KeyError", repr(k))
        return self.vals[k]

    def py_setitem(self, I, key, v):
        k = I.concrete_key(key)
        if k not in self.pres:
            self.keys.append(k)
        self.pres[k] = True
        self.vals[k] = v

    def py_len(self, I):
        acc = 0
        for k in self.keys:
            acc = mkint(iadd(acc, iite(bterm(self.pres[k]), 1, 0)))
        return acc

    def truth_term(self):
        return bor(*[bterm(self.pres[k]) for k in self.keys])

    def present_keys(self):
        """iteration forks on the presence of every key"""
        out = []
        for k in self.keys:
            if ctx().decide(bterm(self.pres[k])):
                out.append(k)
        return out

    def iterate(self):
        return self.present_keys()

    def copy(self):
        return OptDict(self.keys, self.pres, self.vals)

    def py_eq(self, I, other):
        if isinstance(other, dict):
            ks = self.present_keys()
            if set(ks) != set(other.keys()):
                return False
            return mkbool(band(*[bterm(I.equal(self.vals[k], other[k])) for k in ks]))
        if isinstance(other, OptDict):
            ka, kb = self.present_keys(), other.present_keys()
            if set(ka) != set(kb):
                return False
            return mkbool(band(*[bterm(I.equal(self.vals[k], other.vals[k])) for k in ka]))
        return False

    def py_getattr(self, I, name):
        from .interp import Builtin

        def mk(f):
            return Builtin(name, lambda I_, a, k: f(*a, **k))

        if name == "keys":
            return mk(lambda: OptKeys(self))
        if name == "items":
            return mk(lambda: [(k, self.vals[k]) for k in self.present_keys()])
        if name == "values":
            return mk(lambda: [self.vals[k] for k in self.present_keys()])
        if name == "get":
            def get(k, d=None):
                kk = I.concrete_key(k)
                if ctx().decide(bterm(self.has(kk))):
                    return self.vals[kk]
                return d
            return mk(get)
        if name == "update":
            def update(other):
                merge_into(I, self, other)
            return mk(update)
        if name == "copy":
            return mk(lambda: self.copy())
        raise PyRaise("AttributeError", f"dict has no attribute {name}")

    def __repr__(self):
        return "OptDict(" + ", ".join(f"{k}?{self.pres[k]}" for k in self.keys) + ")"


class OptKeys:
    def __init__(self, d):
        self.d = d

    def iterate(self):
        return self.d.present_keys()

    def py_contains(self, I, item):
        return self.d.py_contains(I, item)

    def py_len(self, I):
        return self.d.py_len(I)


def merge_into(I, dst, src):
    """dst.update(src) for OptDict / dict operands"""
    if isinstance(src, dict):
        for k, v in src.items():
            dst.py_setitem(I, k, v)
        return
    if isinstance(src, OptDict):
        for k in src.keys:
            p = src.pres[k]
            if k not in dst.pres:
                dst.keys.append(k)
                dst.pres[k] = p
                dst.vals[k] = src.vals[k]
            else:
                old_p, old_v = dst.pres[k], dst.vals[k]
                dst.pres[k] = mkbool(bor(bterm(old_p), bterm(p)))
                dst.vals[k] = merge_val(bterm(p), src.vals[k], old_v)
        return
    raise Unsupported("dict.update with " + type(src).__name__)


def merge_val(c, a, b):
    """value-level if-then-else that also works for marks and nested optional dicts"""
    if _isT(c):
        return a
    if _isF(c):
        return b
    if isinstance(a, Mark) and isinstance(b, Mark):
        return Mark(truth=bite(c, a.truth, b.truth))
    if isinstance(a, OptDict) and isinstance(b, OptDict):
        keys = list(dict.fromkeys(a.keys + b.keys))
        r = OptDict()
        for k in keys:
            r.keys.append(k)
            r.pres[k] = mkbool(bite(c, bterm(a.has(k)), bterm(b.has(k))))
            va, vb = a.vals.get(k), b.vals.get(k)
            r.vals[k] = va if vb is None else (vb if va is None else merge_val(c, va, vb))
        return r
    try:
        return vite(c, a, b)
    except Unsupported:
        if ctx().decide(c):
            return a
        return b


def merged_dict(I, parts):
    """{**a, **b, ...} with OptDict operands"""
    r = OptDict()
    for p in parts:
        merge_into(I, r, p)
    return r


class SymMap:
    """total symbolic map from integer atoms to extended reals (e.g. tally_pool_means keyed by an abstract pool label)"""

    def __init__(self, name, lo=None, hi=None, nan_ok=False):
        self.f = z3.Function(name, z3.IntSort(), z3.RealSort())
        self.lo, self.hi = lo, hi
        self.name = name

    def py_getitem(self, I, key):
        k = zi(iterm(key))
        v = XR(self.f(k), npk=True)
        c = ctx()
        if self.lo is not None:
            c.assume(xcmp(">=", v, self.lo), definitional=True)
        if self.hi is not None:
            c.assume(xcmp("<=", v, self.hi), definitional=True)
        return v

    def py_contains(self, I, item):
        return True

    def truth_term(self):
        return True


def sym_cvr(I, name, contests, mark="int", cls=None, phantom=None, pool=None, tally_pool=None, may_lack=True,
            sample_num=None, id_=None):
    """a fully symbolic CVR: `contests` maps contest id -> list of candidate ids that may carry a mark.
    Every contest and every candidate entry is present under its own symbolic condition; marks are opaque (mark='mark')
    or non-negative integer ranks (mark='rank')."""
    from .interp import Obj
    c = ctx()
    votes = OptDict()
    for cid, cands in contests.items():
        inner = OptDict()
        for cand in cands:
            inner.keys.append(cand)
            inner.pres[cand] = mkbool(z3.Bool(f"{name}.has[{cid}][{cand}]"))
            if mark == "mark":
                inner.vals[cand] = Mark(f"{name}.mark[{cid}][{cand}]")
            elif mark == "int":
                # a mark of any numeric encoding (False/True/0/1/2/...): an unconstrained integer, truthy iff non-zero
                inner.vals[cand] = SInt(z3.Int(f"{name}.mark[{cid}][{cand}]"))
            else:
                r = z3.Int(f"{name}.rank[{cid}][{cand}]")
                c.assume(r >= 0)
                inner.vals[cand] = SInt(r)
        votes.keys.append(cid)
        votes.pres[cid] = mkbool(z3.Bool(f"{name}.lists[{cid}]")) if may_lack else True
        votes.vals[cid] = inner
    cls = cls or I.get("shangrla.core.Audit", "CVR")
    attrs = {
        "id": id_ if id_ is not None else name,
        "card_in_batch": None,
        "votes": votes,
        "phantom": SBool(z3.Bool(f"{name}.phantom")) if phantom is None else phantom,
        "tally_pool": SInt(z3.Int(f"{name}.tally_pool")) if tally_pool is None else tally_pool,
        "pool": SBool(z3.Bool(f"{name}.pool")) if pool is None else pool,
        "sample_num": XR.finvar(f"{name}.sample_num") if sample_num is None else sample_num,
        "p": None,
        "sampled": False,
    }
    return Obj(cls, attrs)


# ---------------------------------------------------------------- strings with symbolic parts, pandas abstraction

class SymStr:
    """an opaque string atom (e.g. a tabulator name): only equality with other strings is observable.  Concrete strings are
    interned to integer codes; distinct codes = distinct strings."""
    CODES = {}

    def __init__(self, term):
        self.t = term

    @classmethod
    def code(cls, s):
        if s not in cls.CODES:
            cls.CODES[s] = len(cls.CODES) + 1
        return cls.CODES[s]

    def py_eq(self, I, other):
        if isinstance(other, str):
            return mkbool(zi(self.t) == SymStr.code(other))
        if isinstance(other, SymStr):
            return mkbool(zi(self.t) == zi(other.t))
        return False

    def py_str(self, I):
        return self

    def __repr__(self):
        return f"SymStr({self.t})"


class FStr:
    """result of an f-string / concatenation with symbolic parts: a tuple of parts.  Two such strings are equal iff their parts are
    (trusted: the fixed separators do not occur inside the parts).  Hashable by identity so that it can key a dict."""

    def __init__(self, parts):
        self.parts = list(parts)

    def py_eq(self, I, other):
        if isinstance(other, FStr) and len(other.parts) == len(self.parts):
            return mkbool(band(*[bterm(I.equal(a, b)) for a, b in zip(self.parts, other.parts)]))
        return False

    def py_str(self, I):
        return self

    def __repr__(self):
        return "FStr(" + "|".join(str(p) for p in self.parts) + ")"


class SymSeries:
    def __init__(self, arr):
        self.arr = arr

    def py_getattr(self, I, name):
        from .interp import Builtin
        from . import npmodel

        def mk(f):
            return Builtin(name, lambda I_, a, k: f(*a, **k))
        if name == "sum":
            return mk(lambda: I.builtins["np.sum"].fn(I, [self.arr], {}))
        if name == "cumsum":
            return mk(lambda: SymSeries(npmodel.cum(I, self.arr, "+")))
        if name == "astype":
            return mk(lambda t: self)
        if name == "iloc":
            return ILoc(self)
        raise Unsupported("Series." + name)

    def iterate(self):
        if self.arr.items is not None:
            return list(self.arr.items)
        raise Unsupported("iteration over a symbolic Series")

    def py_list(self):
        r = self.arr.copy()
        r.is_list = True
        return list(r.items) if r.items is not None else r

    def py_getitem(self, I, key):
        from . import npmodel
        return npmodel.arr_getitem(I, self.arr, key)


class ILoc:
    def __init__(self, owner):
        self.owner = owner

    def py_getitem(self, I, key):
        if isinstance(self.owner, SymSeries):
            return self.owner.arr.at_checked(key)
        return FrameRow(self.owner, key)


class FrameRow:
    def __init__(self, frame, k):
        self.frame, self.k = frame, k

    def py_getitem(self, I, key):
        if isinstance(key, list):
            return [self.frame.cols[c].at_checked(self.k) for c in key]
        if key not in self.frame.cols:
            raise PyRaise("KeyError", repr(key))
        return self.frame.cols[key].at_checked(self.k)


class SymFrame:
    """pandas DataFrame abstracted to its columns (name -> SymArr of equal length).  Trusted pandas contracts: column read and
    assignment, .sum(), .cumsum(), .iloc[k][col], concat of one row, astype(str) (identity on the abstract values)."""

    def __init__(self, cols, nrows):
        self.cols = dict(cols)
        self.nrows = nrows

    def py_getitem(self, I, key):
        if isinstance(key, str):
            if key not in self.cols:
                raise PyRaise("KeyError", repr(key))
            return SymSeries(self.cols[key])
        raise Unsupported("DataFrame[...] with " + type(key).__name__)

    def py_setitem(self, I, key, v):
        if isinstance(v, SymSeries):
            v = v.arr
        if not isinstance(v, SymArr):
            raise Unsupported("DataFrame column assignment of " + type(v).__name__)
        self.cols[key] = v

    def py_getattr(self, I, name):
        from .interp import Builtin
        if name == "columns":
            return list(self.cols.keys())
        if name == "iloc":
            return ILoc(self)
        if name == "copy":
            return Builtin("copy", lambda I_, a, k: SymFrame({c: v.copy() for c, v in self.cols.items()}, self.nrows))
        raise Unsupported("DataFrame." + name)

    def py_len(self, I):
        return mkint(self.nrows)


def pd_concat_one_row(I, frame, row):
    """pd.concat([frame, pd.DataFrame([row])], ignore_index=True): every column gets the row's value appended"""
    from . import npmodel
    cols = {}
    for c, arr in frame.cols.items():
        if c not in row:
            raise Unsupported("concat: row lacks column " + c)
        v = row[c]
        if v is None:
            v = SymStr(z3.IntVal(0)) if arr.kind == "obj" else 0
        elif arr.kind == "obj":
            v = SymStr(z3.IntVal(SymStr.code(str(v)))) if not isinstance(v, SymStr) else v
        cols[c] = npmodel.concat(I, arr, SymArr(0, kind=arr.kind, items=[v]))
    return SymFrame(cols, mkint(iadd(frame.nrows, 1)))


# ---------------------------------------------------------------- symbolic-length lists of records

class SymObjList:
    """a list of N records (N symbolic); element i is a record whose fields are uninterpreted functions of i.
    `make(i)` builds (and memoises per index term) the record object for index i."""

    def __init__(self, length, make):
        self.length = length
        self.make = make
        self._memo = {}

    def at(self, i):
        i = idx_term(i)
        if isinstance(i, int):
            i = z3.IntVal(i)
        k = tid(i)
        if k not in self._memo:
            self._memo[k] = self.make(i)
        return self._memo[k]

    def py_getitem(self, I, key):
        key = idx_term(key)
        c = ctx()
        ok = band(icmp(">=", key, 0), icmp("<", key, self.length))
        if not c.decide(ok):
            if c.decide(band(icmp("<", key, 0), icmp(">=", key, mkint(isub(0, self.length))))):
                return self.at(mkint(iadd(self.length, key)))
            raise PyRaise("IndexError", "list index out of range")
        return self.at(key)

    def py_len(self, I):
        return mkint(self.length)

    def truth_term(self):
        return icmp(">", self.length, 0)

    def py_getattr(self, I, name):
        from .interp import Builtin
        if name == "append":
            def append(I_, a, k):
                # in-place: the new last element is stored as an override at index = old length
                old = self.length
                key = tid(idx_term(old) if not isinstance(old, int) else z3.IntVal(old))
                self._memo[key] = a[0]
                base = self.make
                oldt = zi(old)
                v = a[0]

                def make2(i, base=base, oldt=oldt, v=v):
                    if ctx().decide(zi(i) == oldt):
                        return v
                    return base(i)
                self.make = make2
                self.length = mkint(iadd(old, 1))
                return None
            return Builtin("append", append)
        raise Unsupported("method of a symbolic-length record list: " + name)

    def concat(self, other):
        """self + other (a new list; the element objects are shared, as in Python)"""
        n1 = self.length
        if isinstance(other, list):
            other = from_pylist(other)
        a, b = self, other

        def make(i):
            if ctx().decide(icmp("<", i, n1)):
                return a.at(i)
            return b.at(mkint(isub(i, n1)))
        return SymObjList(mkint(iadd(n1, other.length)), make)


def from_pylist(items):
    """a concrete Python list viewed as a record list (element selection forks on the index)"""
    items = list(items)

    def make(i):
        for k in range(len(items) - 1):
            if ctx().decide(icmp("==", i, k)):
                return items[k]
        return items[-1]
    return SymObjList(len(items), make if items else (lambda i: None))


class FilteredArr:
    """[elem(rec) for rec in L if cond(rec)] over a symbolic-length record list: kept as (length of L, elem, cond); only
    aggregate uses (np.sum, sum, len) are supported"""

    def __init__(self, length, elem, cond):
        self.length, self.elem, self.cond = length, elem, cond

    def indicator(self):
        """SymArr over the positions of L: elem (as 0/1 or integer) where cond holds, 0 elsewhere"""
        probe_kind = {}

        def f(i):
            v = self.elem(i)
            if isinstance(v, XR):
                return xite(self.cond(i), v, XR.const(0, npk=True))
            t = iite(bterm(v), 1, 0) if isinstance(v, (bool, SBool)) else v
            return mkint(iite(self.cond(i), t, 0))
        pi = z3.Int(ctx().fresh("fprobe"))
        with ctx().scope():
            ctx().assume(z3.And(pi >= 0, pi < zi(self.length)))
            try:
                kind = "xr" if isinstance(self.elem(pi), XR) else "int"
            except PathInfeasible:
                kind = "int"
        return SymArr(self.length, f, kind)

    def py_len(self, I):
        arr = SymArr(self.length, lambda i: mkint(iite(self.cond(i), 1, 0)), "int")
        return arr.fold("+").at(self.length)


class SortedPerm:
    """contract of  sorted(enumerate(L), key=k)  for a symbolic-length list: a permutation sigma of 0..N-1 (bijection: trusted
    as part of the contract of `sorted`) such that k is non-decreasing along it; yields pairs (sigma(j), L[sigma(j)])."""

    def __init__(self, lst, keyfn_vals, name):
        self.lst = lst
        self.length = lst.length
        self.sigma = z3.Function(name, z3.IntSort(), z3.IntSort())
        self.keyvals = keyfn_vals
        self._seen = set()

    def perm_at(self, j):
        j = zi(idx_term(j))
        s = self.sigma(j)
        c = ctx()
        if tid(j) not in self._seen:
            self._seen.add(tid(j))
            n = zi(self.length)
            c.assume(z3.Implies(z3.And(j >= 0, j < n), z3.And(s >= 0, s < n)))
        return SInt(s)

    def at(self, j):
        s = self.perm_at(j)
        return (s, self.lst.at(s.t))

    def key_at(self, j):
        """the sort key of the j-th element of the sorted list (evaluates the real key function on it)"""
        I, key, rev = self.keyvals
        el = self.at(j)
        return I.call(key, [el], {}) if key is not None else el

    def ordered(self, j1, j2):
        """contract of sorted: positions j1 <= j2 within range carry non-decreasing keys (term to assume)"""
        I, key, rev = self.keyvals
        a, b = self.key_at(j1), self.key_at(j2)
        n = zi(self.length)
        j1z, j2z = zi(idx_term(j1)), zi(idx_term(j2))
        return z3.Implies(z3.And(j1z >= 0, j1z <= j2z, j2z < n), zb(xcmp(">=" if rev else "<=", a, b)))


class SymObjDict:
    """an insertion-ordered dict with a symbolic number n of entries: entry i has key key_of(i) (an FStr token, distinct for
    distinct i) and a record rec_of(i).  Iteration needs a loop summary / invariant (symbolic length); look-up by one of its own
    key tokens returns the entry's record."""

    def __init__(self, length, key_of, rec_of):
        self.length = length
        self._key_of, self._rec_of = key_of, rec_of
        self._keys, self._recs, self._by_key = {}, {}, {}

    def key_at(self, i):
        i = idx_term(i)
        it = z3.IntVal(i) if isinstance(i, int) else i
        k = tid(it)
        if k not in self._keys:
            key = self._key_of(it)
            self._keys[k] = key
            self._by_key[id(key)] = it
        return self._keys[k]

    def rec_at(self, i):
        i = idx_term(i)
        it = z3.IntVal(i) if isinstance(i, int) else i
        k = tid(it)
        if k not in self._recs:
            self._recs[k] = self._rec_of(it)
        return self._recs[k]

    def fresh_rec(self, i):
        """a new copy of entry i's record in its state before any summarised loop touched it"""
        return self._rec_of(zi(idx_term(i)))

    def index_of_key(self, key):
        return self._by_key.get(id(key))

    def set_records(self, rec_of):
        """the records after a summarised loop (functional update of the whole collection)"""
        self._rec_of = rec_of
        self._recs = {}

    def py_len(self, I):
        return mkint(self.length)

    def truth_term(self):
        return icmp(">", self.length, 0)

    def py_getitem(self, I, key):
        i = self.index_of_key(key)
        if i is None:
            raise Unsupported("look-up in a symbolic-size dict by a key that is not one of its own key tokens")
        return self.rec_at(i)

    def py_contains(self, I, key):
        return self.index_of_key(key) is not None

    def py_getattr(self, I, name):
        from .interp import Builtin
        if name in ("items", "values", "keys"):
            return Builtin(name, lambda I_, a, k: SymDictView(self, name))
        raise Unsupported("method of a symbolic-size dict: " + name)


class SymDictView:
    """d.items() / d.values() / d.keys() of a SymObjDict"""

    def __init__(self, d, kind):
        self.d, self.kind = d, kind
        self.length = d.length

    def at(self, i):
        if self.kind == "items":
            return (self.d.key_at(i), self.d.rec_at(i))
        return self.d.rec_at(i) if self.kind == "values" else self.d.key_at(i)

    def py_len(self, I):
        return mkint(self.length)


class LazyEntries:
    """a dict filled by a summarised loop with one entry per entry of a SymObjDict: value_of(i) gives entry i's value"""

    def __init__(self, base, value_of, before=None):
        self.base, self.value_of, self.before = base, value_of, before or {}

    def py_getitem(self, I, key):
        i = self.base.index_of_key(key)
        if i is None:
            if key in self.before:
                return self.before[key]
            raise PyRaise("KeyError", repr(key))
        return self.value_of(i)

    def py_len(self, I):
        return mkint(iadd(self.base.length, len(self.before)))

    def py_contains(self, I, key):
        return self.base.index_of_key(key) is not None or key in self.before


class SymIntSet:
    """set(L) for a symbolic-length list L of integers: only membership is observable; member(i) is an uninterpreted predicate
    (true exactly for the elements of L: the defining axiom is instantiated by the proof scripts where they need it)"""

    def __init__(self, arr):
        self.arr = arr
        self.member = z3.Function(ctx().fresh("in_set"), z3.IntSort(), z3.BoolSort())

    def py_contains(self, I, item):
        return mkbool(self.member(zi(iterm(item))))

    def py_len(self, I):
        raise Unsupported("len of a set built from a symbolic-length list")
