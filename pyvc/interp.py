"""Symbolic executor for the Python subset used by pbstark/SHANGRLA.

It interprets the *real* source (ast of /repo's current working tree). Container structure (lists, dicts, objects)
is concrete Python; scalar leaves are symbolic (core.XR / SInt / SBool); numeric arrays are values.SymArr, whose
length may be symbolic.  Branches on symbolic conditions fork through Ctx.decide (re-execution with a decision trail).
Anything outside the subset raises Unsupported (=> exit 3, never a pass).
"""
import ast
import os
import math
import z3
from fractions import Fraction
from .core import *
from .core import _isT, _isF
from .values import *

REPO = os.environ.get("SHANGRLA_REPO", "/repo")


class ReturnEx(Exception):
    def __init__(self, v):
        self.v = v


class BreakEx(Exception):
    pass


class ContinueEx(Exception):
    pass


class CutPath(Exception):
    """path ends at a loop cut point (invariant mode): obligations already recorded"""


# ---------------------------------------------------------------- runtime objects

class Obj:
    def __init__(self, cls, attrs=None):
        self.cls = cls
        self.attrs = attrs if attrs is not None else {}

    def __repr__(self):
        return f"<{self.cls.name if self.cls else 'obj'} {list(self.attrs)[:6]}>"


class ClassRef:
    def __init__(self, name, node, module, interp, bases=()):
        self.name = name
        self.node = node
        self.module = module
        self.interp = interp
        self.bases = list(bases)
        self._ns = None
        self.qual = name

    @property
    def ns(self):
        if self._ns is None:
            self._ns = {}
            env = Env(self._ns, None, self.module)
            env.class_ns = True
            self.interp.exec_block(self.node.body, env, in_class=self)
        return self._ns

    def lookup(self, name):
        if name in self.ns:
            return self.ns[name]
        for b in self.bases:
            if isinstance(b, ClassRef):
                r = b.lookup(name)
                if r is not NOTFOUND:
                    return r
        return NOTFOUND

    def __repr__(self):
        return f"<class {self.qual}>"


class _NotFound:
    def __repr__(self):
        return "NOTFOUND"


NOTFOUND = _NotFound()


class Closure:
    def __init__(self, node, env, module, qual, defaults=None, kwdefaults=None, cls=None, kind="function"):
        self.node = node
        self.env = env
        self.module = module
        self.qual = qual
        self.defaults = defaults or []
        self.kwdefaults = kwdefaults or {}
        self.cls = cls
        self.kind = kind  # function | classmethod | staticmethod

    def __repr__(self):
        return f"<fn {self.qual}>"


class BoundMethod:
    def __init__(self, fn, selfv):
        self.fn = fn
        self.selfv = selfv

    def __repr__(self):
        return f"<bound {self.fn}>"


class Builtin:
    def __init__(self, name, fn):
        self.name = name
        self.fn = fn

    def __repr__(self):
        return f"<builtin {self.name}>"


class ModuleRef:
    def __init__(self, name):
        self.name = name

    def __repr__(self):
        return f"<module {self.name}>"


class DDict(dict):
    """collections.defaultdict"""

    def __init__(self, factory):
        super().__init__()
        self.factory = factory


class Env:
    def __init__(self, vars_, parent, module):
        self.vars = vars_
        self.parent = parent
        self.module = module
        self.class_ns = False

    def lookup(self, name):
        e = self
        while e is not None:
            if name in e.vars and not (e.class_ns and e is not self):
                return e.vars[name]
            e = e.parent
        return NOTFOUND


class Module:
    def __init__(self, name, path, interp):
        self.name = name
        self.path = path
        self.interp = interp
        with open(path) as f:
            self.src = f.read()
        self.tree = ast.parse(self.src)
        self.globals = {}
        self.defs = {}
        for st in self.tree.body:
            if isinstance(st, (ast.FunctionDef, ast.ClassDef)):
                self.defs[st.name] = st
            elif isinstance(st, (ast.Import, ast.ImportFrom)):
                self.defs.setdefault("__imports__", []).append(st)
            elif isinstance(st, ast.Assign):
                for t in st.targets:
                    if isinstance(t, ast.Name):
                        self.defs[t.id] = st

    def resolve_rel(self, imp):
        if getattr(imp, "level", 0):
            base = self.name.split(".")[:-imp.level]
            return ".".join(base + ([imp.module] if imp.module else []))
        return imp.module

    def lookup(self, name):
        if name in self.globals:
            return self.globals[name]
        if name in self.defs:
            st = self.defs[name]
            env = Env(self.globals, None, self)
            if isinstance(st, ast.Assign):
                self.interp.exec_stmt(st, env)
            else:
                self.interp.exec_stmt(st, env)
            return self.globals[name]
        for imp in self.defs.get("__imports__", []):
            if isinstance(imp, ast.Import):
                for a in imp.names:
                    nm = a.asname or a.name.split(".")[0]
                    if nm == name:
                        v = self.interp.import_module(a.name if a.asname else a.name.split(".")[0])
                        self.globals[name] = v
                        return v
            else:
                for a in imp.names:
                    nm = a.asname or a.name
                    if nm == name:
                        v = self.interp.import_from(self.resolve_rel(imp), a.name)
                        self.globals[name] = v
                        return v
        return NOTFOUND


DROPPED_CALLS = {"print", "warnings.warn", "warn"}


class Interp:
    def __init__(self, repo=None):
        self.repo = repo or REPO
        self.modules = {}
        self.contracts = {}     # qualname -> python callable(interp, args, kwargs) -> value
        self.invariants = {}    # (qualname, loop ordinal) -> invariant object
        self.loop_matchers = {}  # qualname -> [(predicate(st), invariant object)]: loops recognised by shape, not by position
        self.dropped = {}       # extraction bookkeeping: kind -> count
        self.builtins = {}
        self.call_depth = 0
        self.max_steps = 2_000_000
        self.steps = 0
        self.fn_stack = []
        self.env_stack = []
        self.executed = {}
        from . import pybuiltins, npmodel
        pybuiltins.install(self)
        npmodel.install(self)

    def log_fn(self, fn, how):
        """bookkeeping for the evidence: which repository functions were executed symbolically / used through their contract"""
        node = fn.node
        mod = fn.module.name if fn.module is not None else "?"
        key = f"{mod}:{fn.qual}:L{getattr(node, 'lineno', 0)}-{getattr(node, 'end_lineno', 0)}"
        d = self.executed.setdefault(key, {"body": 0, "callee-contract": 0})
        d[how] += 1

    # -- modules -----------------------------------------------------
    def module(self, dotted):
        if dotted not in self.modules:
            path = os.path.join(self.repo, *dotted.split(".")) + ".py"
            if not os.path.exists(path):
                path = os.path.join(self.repo, *dotted.split("."), "__init__.py")
            if not os.path.exists(path):
                raise Unsupported(f"module {dotted} not in repository")
            self.modules[dotted] = Module(dotted, path, self)
        return self.modules[dotted]

    def import_module(self, name):
        if name.startswith("shangrla"):
            return self.module(name)
        return ModuleRef(name)

    def import_from(self, mod, name):
        if mod and mod.startswith("shangrla"):
            m = self.module(mod)
            v = m.lookup(name)
            if v is NOTFOUND:
                # submodule?
                return self.module(mod + "." + name)
            return v
        key = f"{mod}.{name}"
        if key in self.builtins:
            return self.builtins[key]
        return ModuleRef(key)

    def get(self, dotted_mod, qual):
        """fetch a function / class / method by qualified name, e.g. ('shangrla.core.NonnegMean','NonnegMean.sjm')"""
        m = self.module(dotted_mod)
        parts = qual.split(".")
        v = m.lookup(parts[0])
        if v is NOTFOUND:
            raise Unsupported(f"{qual} not found in {dotted_mod}")
        for p in parts[1:]:
            v = self.getattr(v, p)
        return v

    # -- statements ----------------------------------------------------
    def exec_block(self, stmts, env, in_class=None):
        for st in stmts:
            self.exec_stmt(st, env, in_class)

    def drop(self, kind):
        self.dropped[kind] = self.dropped.get(kind, 0) + 1

    def exec_stmt(self, st, env, in_class=None):
        self.steps += 1
        if self.steps > self.max_steps:
            raise Unsupported("step budget exceeded")
        m = getattr(self, "st_" + type(st).__name__, None)
        if m is None:
            raise Unsupported(f"statement {type(st).__name__} at line {st.lineno}")
        return m(st, env, in_class)

    def st_Expr(self, st, env, in_class):
        v = st.value
        if isinstance(v, ast.Constant) and isinstance(v.value, str):
            self.drop("docstring")
            return
        if isinstance(v, ast.Call):
            nm = self.dotted(v.func)
            if nm in DROPPED_CALLS or (nm and nm.endswith(".display")):
                self.drop("print/warn call")
                return
        self.eval(v, env)

    def st_Pass(self, st, env, in_class):
        pass

    def st_Import(self, st, env, in_class):
        for a in st.names:
            nm = a.asname or a.name.split(".")[0]
            env.vars[nm] = self.import_module(a.name if a.asname else a.name.split(".")[0])

    def st_ImportFrom(self, st, env, in_class):
        mod = env.module.resolve_rel(st) if env.module is not None else st.module
        for a in st.names:
            env.vars[a.asname or a.name] = self.import_from(mod, a.name)

    def st_FunctionDef(self, st, env, in_class):
        kind = "function"
        for d in st.decorator_list:
            dn = self.dotted(d)
            if dn == "classmethod":
                kind = "classmethod"
            elif dn == "staticmethod":
                kind = "staticmethod"
            else:
                raise Unsupported(f"decorator {dn}")
        defaults = [self.eval(d, env) for d in st.args.defaults]
        kwdefaults = {a.arg: self.eval(d, env) for a, d in zip(st.args.kwonlyargs, st.args.kw_defaults) if d is not None}
        qual = (in_class.qual + "." + st.name) if in_class else (
            (env.fn_qual + ".<locals>." + st.name) if getattr(env, "fn_qual", None) else st.name)
        env.vars[st.name] = Closure(st, env, env.module, qual, defaults, kwdefaults, cls=in_class, kind=kind)

    def st_ClassDef(self, st, env, in_class):
        bases = [self.eval(b, env) for b in st.bases]
        c = ClassRef(st.name, st, env.module, self, bases)
        if in_class:
            c.qual = in_class.qual + "." + st.name
        env.vars[st.name] = c

    def st_Return(self, st, env, in_class):
        raise ReturnEx(self.eval(st.value, env) if st.value is not None else None)

    def st_Assign(self, st, env, in_class):
        v = self.eval(st.value, env)
        for t in st.targets:
            self.assign(t, v, env)

    def st_AnnAssign(self, st, env, in_class):
        if st.value is not None:
            self.assign(st.target, self.eval(st.value, env), env)

    def st_AugAssign(self, st, env, in_class):
        t = st.target
        if isinstance(t, ast.Name):
            cur = self.eval(t, env)
            self.assign(t, self.binop(st.op, cur, self.eval(st.value, env), inplace=True), env)
        elif isinstance(t, ast.Subscript):
            base = self.eval(t.value, env)
            key = self.eval_index(t.slice, env)
            cur = self.getitem(base, key)
            self.setitem(base, key, self.binop(st.op, cur, self.eval(st.value, env), inplace=True))
        elif isinstance(t, ast.Attribute):
            base = self.eval(t.value, env)
            cur = self.getattr(base, t.attr)
            self.setattr(base, t.attr, self.binop(st.op, cur, self.eval(st.value, env), inplace=True))
        else:
            raise Unsupported("augassign target")

    def st_If(self, st, env, in_class):
        if self.truth(self.eval(st.test, env)):
            self.exec_block(st.body, env, in_class)
        else:
            self.exec_block(st.orelse, env, in_class)

    def st_Assert(self, st, env, in_class):
        if not self.truth(self.eval(st.test, env)):
            raise PyRaise("AssertionError", self.src_of(st.test))

    def st_Raise(self, st, env, in_class):
        exc = st.exc
        name = "Exception"
        if exc is not None:
            if isinstance(exc, ast.Call):
                name = self.dotted(exc.func) or "Exception"
            else:
                name = self.dotted(exc) or "Exception"
        if name == "NotImplemented":
            name = "TypeError"  # raise NotImplemented(...) -> TypeError: 'NotImplementedType' object is not callable
        raise PyRaise(name, f"line {st.lineno}")

    def st_With(self, st, env, in_class):
        for it in st.items:
            nm = self.dotted(it.context_expr.func) if isinstance(it.context_expr, ast.Call) else None
            if nm in ("np.errstate", "numpy.errstate"):
                self.drop("np.errstate wrapper")
            elif nm == "open" and "open" in self.builtins:
                # file I/O is abstracted: the script supplies what the file contains (see Interp.files)
                v = self.eval(it.context_expr, env)
                if it.optional_vars is not None:
                    self.assign(it.optional_vars, v, env)
            else:
                raise Unsupported(f"with {nm}")
        self.exec_block(st.body, env, in_class)

    def st_Break(self, st, env, in_class):
        raise BreakEx()

    def st_Continue(self, st, env, in_class):
        raise ContinueEx()

    def st_Delete(self, st, env, in_class):
        for t in st.targets:
            if isinstance(t, ast.Subscript):
                base = self.eval(t.value, env)
                key = self.eval_index(t.slice, env)
                if isinstance(base, (list, dict)):
                    key = self.concrete_key(key)
                    del base[key]
                else:
                    raise Unsupported("del on " + str(type(base)))
            elif isinstance(t, ast.Name):
                del env.vars[t.id]
            else:
                raise Unsupported("del target")

    def st_Global(self, st, env, in_class):
        raise Unsupported("global")

    def loop_key(self, st):
        fn = self.fn_stack[-1] if self.fn_stack else None
        if fn is None:
            return None
        loops = [n for n in ast.walk(fn.node) if isinstance(n, (ast.For, ast.While))]
        loops.sort(key=lambda n: (n.lineno, n.col_offset))
        for k, n in enumerate(loops):
            if n is st:
                return (fn.qual, k)
        return None

    def typed_loop_keys(self, st):
        """(qualname, 'for'|'while', k) with k the ordinal among the function's loops of that kind, and k = -1 for the last"""
        fn = self.fn_stack[-1] if self.fn_stack else None
        if fn is None:
            return []
        kind = "for" if isinstance(st, ast.For) else "while"
        loops = [n for n in ast.walk(fn.node) if isinstance(n, ast.For if kind == "for" else ast.While)]
        loops.sort(key=lambda n: (n.lineno, n.col_offset))
        out = []
        for k, n in enumerate(loops):
            if n is st:
                out.append((fn.qual, kind, k))
                if k == len(loops) - 1:
                    out.append((fn.qual, kind, -1))
        return out

    def matched_invariant(self, st):
        fn = self.fn_stack[-1] if self.fn_stack else None
        if fn is None:
            return None
        for pred, inv in self.loop_matchers.get(fn.qual, []):
            if pred(st):
                return inv
        return None

    def stateless_body(self, body):
        """statements that change no state: conditionals around raise / pass / continue (the loop can only raise or do nothing)"""
        for b in body:
            if isinstance(b, (ast.Raise, ast.Pass, ast.Continue)):
                continue
            if isinstance(b, ast.Expr) and isinstance(b.value, ast.Constant):
                continue
            if isinstance(b, ast.If) and self.stateless_body(b.body) and self.stateless_body(b.orelse) \
                    and not any(isinstance(n, (ast.NamedExpr, ast.Call)) and not (isinstance(n, ast.Call) and self._pure_call(n))
                                for n in ast.walk(b.test)):
                continue
            return False
        return True

    @staticmethod
    def _pure_call(n):
        return isinstance(n.func, ast.Name) and n.func.id in ("len", "abs", "float", "int", "bool", "isinstance") or \
            (isinstance(n.func, ast.Attribute) and isinstance(n.func.value, ast.Name) and n.func.value.id in ("np", "numpy", "math"))

    def stateless_loop(self, st, it, env, in_class):
        """`for v in <symbolic-length array>:` with a body that can only raise: the loop raises iff some element makes the body
        raise (at the first such element, with that element's exception); otherwise it has no effect.  The body is run on an
        arbitrary element (merged evaluation), the existence of a raising element is decided through the `any` contract."""
        c = ctx()
        exc_box = {}

        def raises_at(i):
            env2 = Env({st.target.id: it.at(i)}, env, env.module)
            env2.fn_qual = getattr(env, "fn_qual", None)
            conds = []
            def one_iteration():
                try:
                    self.exec_block(st.body, env2, in_class)
                except ContinueEx:
                    pass

            for pcnd, (kind, v) in c.merged(one_iteration):
                if kind == "raise":
                    conds.append(pcnd)
                    exc_box.setdefault("exc", v)
            return mkbool(bor(*conds)) if conds else False

        flags = SymArr(it.length, raises_at, "bool")
        if self.truth(arr_any(flags)):
            raise exc_box.get("exc") or PyRaise("Exception", "raised inside a loop")
        return None

    def st_For(self, st, env, in_class):
        key = self.loop_key(st)
        inv = self.matched_invariant(st)
        if inv is not None:
            return inv.run_for(self, st, env, in_class)
        for tk in self.typed_loop_keys(st):
            if tk in self.invariants:
                return self.invariants[tk].run_for(self, st, env, in_class)
        if key in self.invariants:
            return self.invariants[key].run_for(self, st, env, in_class)
        it = self.eval(st.iter, env)
        if isinstance(it, SymArr) and it.items is None and not isinstance(it.length, int) and isinstance(st.target, ast.Name) \
                and not st.orelse and self.stateless_body(st.body):
            return self.stateless_loop(st, it, env, in_class)
        seq = self.iterate(it)
        broke = False
        for v in seq:
            self.assign(st.target, v, env)
            try:
                self.exec_block(st.body, env, in_class)
            except BreakEx:
                broke = True
                break
            except ContinueEx:
                continue
        if not broke:
            self.exec_block(st.orelse, env, in_class)

    def st_While(self, st, env, in_class):
        key = self.loop_key(st)
        inv = self.matched_invariant(st)
        if inv is not None:
            return inv.run_while(self, st, env, in_class)
        for tk in self.typed_loop_keys(st):
            if tk in self.invariants:
                return self.invariants[tk].run_while(self, st, env, in_class)
        if key in self.invariants:
            return self.invariants[key].run_while(self, st, env, in_class)
        n = 0
        bound = getattr(self, "while_bound", 10000)
        while self.truth(self.eval(st.test, env)):
            n += 1
            if n > bound:
                raise Unsupported(f"while loop exceeded unwinding bound {bound} (line {st.lineno})")
            try:
                self.exec_block(st.body, env, in_class)
            except BreakEx:
                return
            except ContinueEx:
                continue
        self.exec_block(st.orelse, env, in_class)

    def st_Try(self, st, env, in_class):
        try:
            self.exec_block(st.body, env, in_class)
        except PyRaise as e:
            for h in st.handlers:
                names = []
                if h.type is None:
                    names = None
                elif isinstance(h.type, ast.Tuple):
                    names = [self.dotted(x) for x in h.type.elts]
                else:
                    names = [self.dotted(h.type)]
                if names is None or e.exc_type in names or "Exception" in names:
                    if h.name:
                        env.vars[h.name] = e
                    self.exec_block(h.body, env, in_class)
                    break
            else:
                raise
        else:
            self.exec_block(st.orelse, env, in_class)
        finally:
            if st.finalbody:
                self.exec_block(st.finalbody, env, in_class)

    # -- assignment ---------------------------------------------------
    def assign(self, t, v, env):
        if isinstance(t, ast.Name):
            env.vars[t.id] = v
        elif isinstance(t, (ast.Tuple, ast.List)):
            vals = self.iterate(v)
            vals = list(vals)
            if any(isinstance(e, ast.Starred) for e in t.elts):
                raise Unsupported("starred assignment")
            if len(vals) != len(t.elts):
                raise PyRaise("ValueError", "unpack length mismatch")
            for e, x in zip(t.elts, vals):
                self.assign(e, x, env)
        elif isinstance(t, ast.Attribute):
            self.setattr(self.eval(t.value, env), t.attr, v)
        elif isinstance(t, ast.Subscript):
            base = self.eval(t.value, env)
            key = self.eval_index(t.slice, env)
            self.setitem(base, key, v)
        else:
            raise Unsupported(f"assign target {type(t).__name__}")

    # -- expressions ---------------------------------------------------
    def eval(self, e, env):
        m = getattr(self, "ev_" + type(e).__name__, None)
        if m is None:
            raise Unsupported(f"expression {type(e).__name__} at line {getattr(e, 'lineno', '?')}")
        return m(e, env)

    def ev_Constant(self, e, env):
        v = e.value
        if isinstance(v, float):
            return XR.const(v)
        if isinstance(v, complex) or isinstance(v, bytes):
            raise Unsupported("constant " + repr(v))
        return v

    def ev_Name(self, e, env):
        v = env.lookup(e.id)
        if v is not NOTFOUND:
            return v
        v = env.module.lookup(e.id) if env.module else NOTFOUND
        if v is not NOTFOUND:
            return v
        if e.id in self.builtins:
            return self.builtins[e.id]
        raise PyRaise("NameError", f"name '{e.id}' is not defined")

    def ev_NamedExpr(self, e, env):
        v = self.eval(e.value, env)
        # walrus binds in the enclosing function scope (skip comprehension scopes)
        tgt = env
        while getattr(tgt, "comp_scope", False):
            tgt = tgt.parent
        tgt.vars[e.target.id] = v
        return v

    def ev_Tuple(self, e, env):
        return tuple(self.eval(x, env) for x in e.elts)

    def ev_List(self, e, env):
        out = []
        for x in e.elts:
            if isinstance(x, ast.Starred):
                out.extend(self.iterate(self.eval(x.value, env)))
            else:
                out.append(self.eval(x, env))
        return out

    def ev_Set(self, e, env):
        return set(self.concrete_key(self.eval(x, env)) for x in e.elts)

    def ev_Dict(self, e, env):
        d = {}
        if any(k is None for k in e.keys):
            from .heap import OptDict, merged_dict
            parts = [self.eval(v, env) if k is None else None for k, v in zip(e.keys, e.values)]
            if any(isinstance(p, OptDict) for p in parts):
                if any(k is not None for k in e.keys):
                    raise Unsupported("dict display mixing ** of symbolic dicts with plain items")
                return merged_dict(self, parts)
            for p in parts:
                if not isinstance(p, dict):
                    raise Unsupported("** of non-dict")
                d.update(p)
            return d
        for k, v in zip(e.keys, e.values):
            if k is None:
                src = self.eval(v, env)
                if not isinstance(src, dict):
                    raise Unsupported("** of non-dict")
                d.update(src)
            else:
                d[self.concrete_key(self.eval(k, env))] = self.eval(v, env)
        return d

    def ev_JoinedStr(self, e, env):
        from .heap import FStr, SymStr
        parts, symbolic = [], False
        for v in e.values:
            if isinstance(v, ast.Constant):
                parts.append(str(v.value))
            else:
                try:
                    val = self.eval(v.value, env)
                except (PyRaise, Unsupported):
                    val = "<?>"
                if isinstance(val, (SInt, SymStr, FStr)):
                    symbolic = True
                    parts.append(val)
                else:
                    parts.append(self.to_str(val))
        if symbolic:
            return FStr(parts)
        return "".join(parts)

    def ev_FormattedValue(self, e, env):
        return self.to_str(self.eval(e.value, env))

    def ev_Lambda(self, e, env):
        defaults = [self.eval(d, env) for d in e.args.defaults]
        kwdefaults = {a.arg: self.eval(d, env) for a, d in zip(e.args.kwonlyargs, e.args.kw_defaults) if d is not None}
        qual = (getattr(env, "fn_qual", None) or "<module>") + ".<lambda>@" + str(e.lineno)
        return Closure(e, env, env.module, qual, defaults, kwdefaults)

    def ev_IfExp(self, e, env):
        if self.truth(self.eval(e.test, env)):
            return self.eval(e.body, env)
        return self.eval(e.orelse, env)

    def _pure_simple(self, n):
        if isinstance(n, (ast.Name, ast.Constant)):
            return True
        if isinstance(n, ast.Attribute):
            return self._pure_simple(n.value)
        if isinstance(n, ast.Subscript):
            return self._pure_simple(n.value) and self._pure_simple(n.slice)
        if isinstance(n, ast.UnaryOp) and isinstance(n.op, ast.Not):
            return self._pure_simple(n.operand)
        if isinstance(n, ast.Compare) and all(isinstance(o, (ast.Eq, ast.NotEq, ast.In, ast.NotIn, ast.Lt, ast.LtE, ast.Gt, ast.GtE, ast.Is, ast.IsNot))
                                              for o in n.ops):
            return self._pure_simple(n.left) and all(self._pure_simple(x) for x in n.comparators)
        if isinstance(n, ast.BoolOp):
            return all(self._pure_simple(x) for x in n.values)
        return False

    def ev_BoolOp(self, e, env):
        isand = isinstance(e.op, ast.And)
        if all(self._pure_simple(x) for x in e.values):
            # side-effect-free operands that are all booleans: `a and b` / `a or b` is the logical connective, no path split
            try:
                vals = [self.eval(x, env) for x in e.values]
            except PyRaise:
                vals = None
            if vals is not None and all(isinstance(v, (bool, SBool)) for v in vals):
                ts = [bterm(v) for v in vals]
                return mkbool(band(*ts) if isand else bor(*ts))
        v = None
        for x in e.values:
            v = self.eval(x, env)
            t = self.truth(v)
            if isand and not t:
                return v
            if not isand and t:
                return v
        return v

    def ev_UnaryOp(self, e, env):
        v = self.eval(e.operand, env)
        if isinstance(e.op, ast.Not):
            t = self.truth_term(v)
            return mkbool(bnot(t))
        if isinstance(e.op, ast.USub):
            return self.neg(v)
        if isinstance(e.op, ast.UAdd):
            return v
        raise Unsupported("unary " + type(e.op).__name__)

    def neg(self, v):
        if isinstance(v, bool):
            return -int(v)
        if isinstance(v, int):
            return -v
        if isinstance(v, SInt):
            return mkint(-zi(v.t))
        if isinstance(v, XR):
            return xneg(v)
        if isinstance(v, SymArr):
            return self.np_map1(v, self.neg)
        raise Unsupported("neg " + str(type(v)))

    def ev_BinOp(self, e, env):
        return self.binop(e.op, self.eval(e.left, env), self.eval(e.right, env))

    def ev_Compare(self, e, env):
        left = self.eval(e.left, env)
        res = None
        for op, r in zip(e.ops, e.comparators):
            right = self.eval(r, env)
            c = self.compare(op, left, right)
            if res is None:
                res = c
            else:
                if isinstance(res, SymArr) or isinstance(c, SymArr):
                    raise Unsupported("chained array comparison")
                res = mkbool(band(bterm(res), bterm(c)))
            if res is False:
                return False
            left = right
        return res

    def ev_Attribute(self, e, env):
        return self.getattr(self.eval(e.value, env), e.attr)

    def ev_Subscript(self, e, env):
        base = self.eval(e.value, env)
        key = self.eval_index(e.slice, env)
        return self.getitem(base, key)

    def eval_index(self, s, env):
        if isinstance(s, ast.Slice):
            return slice(self.eval(s.lower, env) if s.lower else None,
                         self.eval(s.upper, env) if s.upper else None,
                         self.eval(s.step, env) if s.step else None)
        if isinstance(s, ast.Tuple):
            return tuple(self.eval_index(x, env) for x in s.elts)
        return self.eval(s, env)

    def ev_Starred(self, e, env):
        raise Unsupported("starred expression")

    def comp_iter(self, gens, env, body):
        """run comprehension generators, calling body(env2) for each binding"""
        def rec(k, env2):
            if k == len(gens):
                body(env2)
                return
            g = gens[k]
            if g.is_async:
                raise Unsupported("async comprehension")
            seq = self.iterate(self.eval(g.iter, env2))
            for v in seq:
                self.assign(g.target, v, env2)
                if all(self.truth(self.eval(c, env2)) for c in g.ifs):
                    rec(k + 1, env2)
        env2 = Env({}, env, env.module)
        env2.comp_scope = True
        env2.fn_qual = getattr(env, "fn_qual", None)
        rec(0, env2)

    def merged_eval(self, thunk):
        """value of a pure scalar computation as ONE if-then-else term over its internal case distinctions (no forking of the
        enclosing path); a sub-path that raises becomes a fork of the enclosing path at its condition"""
        c = ctx()
        outs = c.merged(thunk)
        vals = []
        for pcnd, (kind, v) in outs:
            if kind == "raise":
                if c.decide(pcnd):
                    raise v
            else:
                if not isinstance(v, (bool, int, SBool, SInt, XR)):
                    raise Unsupported("merged computation with a non-scalar result")
                vals.append((pcnd, v))
        if not vals:
            raise PathInfeasible()
        r = vals[-1][1]
        for pcnd, v in reversed(vals[:-1]):
            r = vite(pcnd, v, r)
        return r

    def comp_snapshot(self, e, env):
        """elements of a symbolic comprehension are evaluated lazily: freeze the current bindings of the names it mentions
        (Python evaluates the comprehension now, before any later rebinding of e.g. a loop variable)"""
        names = set()
        for g in e.generators:
            for sub in [g.iter] + list(g.ifs):
                names |= {n.id for n in ast.walk(sub) if isinstance(n, ast.Name)}
        for part in ([e.elt] if hasattr(e, "elt") else [e.key, e.value]):
            names |= {n.id for n in ast.walk(part) if isinstance(n, ast.Name)}
        snap = {}
        for nm in names:
            v = env.lookup(nm)
            if v is not NOTFOUND:
                snap[nm] = v
        env2 = Env(snap, env, env.module)
        env2.comp_scope = True
        env2.fn_qual = getattr(env, "fn_qual", None)
        return env2

    def sym_comp(self, e, env):
        """single-generator comprehension over a symbolic-length array without filter -> pointwise SymArr"""
        if len(e.generators) != 1:
            return None
        g = e.generators[0]
        env = self.comp_snapshot(e, env)
        pure_range = isinstance(g.iter, ast.Call) and isinstance(g.iter.func, ast.Name) and g.iter.func.id == "range" and \
            all(isinstance(n, (ast.Name, ast.Constant, ast.Call, ast.Attribute, ast.BinOp, ast.Load, ast.operator)) and
                (not isinstance(n, ast.Call) or (isinstance(n.func, ast.Name) and n.func.id in ("range", "len")))
                for a_ in g.iter.args for n in ast.walk(a_))
        if g.ifs and not (isinstance(g.iter, ast.Name) or pure_range):
            return None
        src = self.eval(g.iter, env)
        from .heap import SortedPerm, SymObjList, FilteredArr
        if g.ifs and isinstance(src, SymArr) and src.items is None and getattr(src, "is_range", False) and isinstance(g.target, ast.Name):
            # [f(i) for i in range(n) if cond(i)] with a symbolic n: kept as (n, f, cond); aggregates and pointwise reads only
            nm1 = g.target.id

            def elem_r(i):
                env2 = Env({nm1: src.at(i)}, env, env.module)
                env2.comp_scope = True
                return self.merged_eval(lambda: self.eval(e.elt, env2))

            def cond_r(i):
                env2 = Env({nm1: src.at(i)}, env, env.module)
                env2.comp_scope = True
                return bterm(self.merged_eval(lambda: mkbool(band(*[bterm(mkbool(self.truth_term(self.eval(cc, env2)))) for cc in g.ifs]))))
            return FilteredArr(src.length, elem_r, cond_r), src
        if isinstance(src, SymObjList):
            if not isinstance(g.target, ast.Name):
                raise Unsupported("comprehension over a symbolic record list needs a simple target")
            nm0 = g.target.id

            def elem_o(i):
                env2 = Env({nm0: src.at(i)}, env, env.module)
                env2.comp_scope = True
                return self.merged_eval(lambda: self.eval(e.elt, env2))

            if g.ifs:
                def cond_o(i):
                    env2 = Env({nm0: src.at(i)}, env, env.module)
                    env2.comp_scope = True
                    return bterm(self.merged_eval(lambda: mkbool(band(*[bterm(mkbool(self.truth_term(self.eval(cc, env2)))) for cc in g.ifs]))))
                return FilteredArr(src.length, elem_o, cond_o), src
            pi0 = z3.Int(ctx().fresh("cprobe"))
            with ctx().scope():
                ctx().assume(z3.And(pi0 >= 0, pi0 < zi(src.length)))
                try:
                    probe = elem_o(pi0)
                except PathInfeasible:
                    probe = XR.const(0)
            kind = "bool" if isinstance(probe, (bool, SBool)) else ("int" if isinstance(probe, (int, SInt)) else "xr")
            r = SymArr(src.length, elem_o, kind)
            r.is_list = True
            return r, src
        if g.ifs:
            return None
        if isinstance(src, SortedPerm):
            # [f(i, rec) for i, rec in sorted(enumerate(L), key=...)]  ->  pointwise over the permutation
            if not (isinstance(g.target, ast.Tuple) and len(g.target.elts) == 2 and all(isinstance(t, ast.Name) for t in g.target.elts)):
                raise Unsupported("comprehension over a sorted record list needs an (index, record) target")
            n0, n1 = g.target.elts[0].id, g.target.elts[1].id

            def elem2(j):
                a_, b_ = src.at(j)
                env2 = Env({n0: a_, n1: b_}, env, env.module)
                env2.comp_scope = True
                return self.eval(e.elt, env2)

            r = SymArr(src.length, elem2, "int")
            r.is_list = True
            r.sorted_perm = src
            return r, src
        if not (isinstance(src, SymArr) and src.items is None):
            return None, src
        if not isinstance(g.target, ast.Name):
            raise Unsupported("symbolic comprehension with tuple target")
        elt = e.elt
        nm = g.target.id

        def elem(i):
            env2 = Env({nm: src.at(i)}, env, env.module)
            env2.comp_scope = True
            return self.eval(elt, env2)

        pi = z3.Int(ctx().fresh("cprobe"))
        with ctx().scope():
            # the probe position (used only to learn the element kind) lies within the sequence
            ctx().assume(z3.And(pi >= 0, pi < zi(src.length)))
            try:
                probe = elem(pi)
            except PathInfeasible:        # the sequence is empty on this path
                probe = XR.const(0)
        kind = "bool" if isinstance(probe, (bool, SBool)) else ("int" if isinstance(probe, (int, SInt)) else "xr")
        r = SymArr(src.length, elem, kind)
        r.is_list = True
        return r, src

    def ev_ListComp(self, e, env):
        r = self.sym_comp(e, env)
        if r is not None and r[0] is not None:
            return r[0]
        out = []
        self.comp_iter(e.generators, env, lambda env2: out.append(self.eval(e.elt, env2)))
        return out

    def ev_GeneratorExp(self, e, env):
        return self.ev_ListComp(e, env)

    def ev_SetComp(self, e, env):
        out = set()
        self.comp_iter(e.generators, env, lambda env2: out.add(self.concrete_key(self.eval(e.elt, env2))))
        return out

    def ev_DictComp(self, e, env):
        out = {}

        def body(env2):
            out[self.concrete_key(self.eval(e.key, env2))] = self.eval(e.value, env2)

        self.comp_iter(e.generators, env, body)
        return out

    def ev_Call(self, e, env):
        nm = self.dotted(e.func)
        if nm in DROPPED_CALLS:
            self.drop("print/warn call")
            return None
        fn = self.eval(e.func, env)
        args = []
        for a in e.args:
            if isinstance(a, ast.Starred):
                args.extend(self.iterate(self.eval(a.value, env)))
            else:
                args.append(self.eval(a, env))
        kwargs = {}
        for k in e.keywords:
            if k.arg is None:
                d = self.eval(k.value, env)
                if not isinstance(d, dict):
                    raise Unsupported("** of non-dict")
                kwargs.update(d)
            else:
                kwargs[k.arg] = self.eval(k.value, env)
        return self.call(fn, args, kwargs)

    # -- helpers -------------------------------------------------------
    def dotted(self, e):
        if isinstance(e, ast.Name):
            return e.id
        if isinstance(e, ast.Attribute):
            b = self.dotted(e.value)
            return (b + "." + e.attr) if b else None
        return None

    def src_of(self, e):
        try:
            return ast.unparse(e)[:80]
        except Exception:
            return "?"

    def to_str(self, v):
        if isinstance(v, str):
            return v
        if v is None or isinstance(v, (bool, int)):
            return str(v)
        if isinstance(v, XR) and v.is_const() and v.fin() is True:
            f = float(v.v)
            return repr(f)
        if isinstance(v, Obj):
            s = v.cls.lookup("__str__") if v.cls else NOTFOUND
            return f"<{v.cls.name}>"
        return "<sym>"

    def concrete_key(self, k):
        if isinstance(k, (str, int, bool, type(None), Fraction)):
            return k
        if isinstance(k, tuple):
            return tuple(self.concrete_key(x) for x in k)
        if isinstance(k, XR) and k.is_const():
            if k.fin() is True:
                return k.v if k.v.denominator != 1 else int(k.v)
        if isinstance(k, (Obj, ClassRef, Closure)):
            return k
        from .heap import FStr
        if isinstance(k, FStr):
            return k          # keyed by identity: a string with symbolic parts only matches itself
        if isinstance(k, SInt):
            raise Unsupported("symbolic dict key / set element")
        raise Unsupported(f"dict key of type {type(k).__name__}")

    # truthiness ---------------------------------------------------------
    def truth_term(self, v):
        """truthiness as bool | z3 Bool"""
        if v is None:
            return False
        if isinstance(v, bool):
            return v
        if isinstance(v, SBool):
            return v.t
        if isinstance(v, int):
            return v != 0
        if isinstance(v, SInt):
            return v.t != 0
        if isinstance(v, XR):
            return bnot(v.zero())
        if isinstance(v, Fraction):
            return v != 0
        if isinstance(v, (str, list, tuple, dict, set, frozenset)):
            return len(v) > 0
        if isinstance(v, SymArr):
            n = v.length
            if isinstance(n, int):
                if n == 0:
                    return False
                if n == 1:
                    return self.truth_term(v.at(0))
            raise PyRaise("ValueError", "truth value of an array with more than one element is ambiguous")
        if isinstance(v, Obj):
            if v.cls is not None:
                b = v.cls.lookup("__bool__")
                if b is not NOTFOUND:
                    return self.truth_term(self.call(BoundMethod(b, v), [], {}))
                l = v.cls.lookup("__len__")
                if l is not NOTFOUND:
                    return self.truth_term(self.call(BoundMethod(l, v), [], {}))
            return True
        if isinstance(v, (Closure, BoundMethod, Builtin, ClassRef, ModuleRef, Module)):
            return True
        if hasattr(v, "truth_term"):
            return v.truth_term()
        raise Unsupported(f"truthiness of {type(v).__name__}")

    def truth(self, v):
        return ctx().decide(self.truth_term(v))

    # iteration ------------------------------------------------------------
    def iterate(self, it):
        if isinstance(it, (list, tuple)):
            return list(it)
        if isinstance(it, dict):
            return list(it.keys())
        if isinstance(it, (set, frozenset)):
            return sorted(it, key=lambda x: (str(type(x)), str(x)))
        if isinstance(it, str):
            return list(it)
        if isinstance(it, range):
            return list(it)
        if isinstance(it, SymArr):
            if it.items is not None:
                return list(it.items)
            raise Unsupported("iteration over a symbolic-length array needs a loop invariant")
        if hasattr(it, "iterate"):
            return it.iterate()
        raise Unsupported(f"iteration over {type(it).__name__}")

    # attribute access -------------------------------------------------------
    def getattr(self, o, name):
        from . import pybuiltins
        if isinstance(o, Obj):
            if name in o.attrs:
                return o.attrs[name]
            if name == "__dict__":
                return o.attrs
            if name == "__class__":
                return o.cls
            if o.cls is not None:
                v = o.cls.lookup(name)
                if v is not NOTFOUND:
                    return self.bind(v, o, o.cls)
            raise PyRaise("AttributeError", f"{o.cls.name if o.cls else 'object'} has no attribute {name}")
        if isinstance(o, ClassRef):
            if name == "__name__":
                return o.name
            v = o.lookup(name)
            if v is NOTFOUND:
                raise PyRaise("AttributeError", f"class {o.name} has no attribute {name}")
            return self.bind(v, None, o)
        if isinstance(o, Module):
            v = o.lookup(name)
            if v is NOTFOUND:
                raise PyRaise("AttributeError", f"module {o.name} has no attribute {name}")
            return v
        if isinstance(o, ModuleRef):
            key = o.name + "." + name
            if key in self.builtins:
                return self.builtins[key]
            return ModuleRef(key)
        if isinstance(o, (Closure, BoundMethod)) and name == "__get__":
            return Builtin("__get__", lambda interp, args, kwargs, o=o: BoundMethod(o if isinstance(o, Closure) else o.fn, args[0]))
        if isinstance(o, Closure) and name == "__name__":
            return o.node.name if hasattr(o.node, "name") else "<lambda>"
        return pybuiltins.method(self, o, name)

    def bind(self, v, inst, cls):
        if isinstance(v, Closure) and v.cls is not None:
            if v.kind == "classmethod":
                return BoundMethod(v, cls)
            if v.kind == "staticmethod":
                return v
            if inst is not None:
                return BoundMethod(v, inst)
        return v

    def setattr(self, o, name, v):
        if isinstance(o, Obj):
            o.attrs[name] = v
            return
        if isinstance(o, ClassRef):
            o.ns[name] = v
            return
        if hasattr(o, "py_setattr"):
            return o.py_setattr(name, v)
        raise Unsupported(f"setattr on {type(o).__name__}")

    # subscripts -----------------------------------------------------------------
    def getitem(self, base, key):
        from . import npmodel
        if isinstance(base, SymArr):
            return npmodel.arr_getitem(self, base, key)
        if isinstance(base, (list, tuple, str)):
            if isinstance(key, slice):
                sl = slice(*[self.conc_int(x) for x in (key.start, key.stop, key.step)])
                return base[sl]
            if isinstance(key, (SInt,)):
                # symbolic index into a concrete list: fork over positions
                n = len(base)
                for k in range(-n, n):
                    if ctx().decide(icmp("==", key, k)):
                        return base[k]
                raise PyRaise("IndexError", "list index out of range")
            k = self.conc_int(key)
            try:
                return base[k]
            except IndexError:
                raise PyRaise("IndexError", "list index out of range")
        if isinstance(base, DDict):
            k = self.concrete_key(key)
            if k not in base:
                base[k] = self.call(base.factory, [], {})
            return base[k]
        if isinstance(base, dict):
            k = self.concrete_key(key)
            if k not in base:
                raise PyRaise("KeyError", repr(k))
            return base[k]
        if hasattr(base, "py_getitem"):
            return base.py_getitem(self, key)
        raise Unsupported(f"subscript of {type(base).__name__}")

    def conc_int(self, v):
        if v is None:
            return None
        if isinstance(v, bool):
            return int(v)
        if isinstance(v, int):
            return v
        if isinstance(v, XR) and v.is_const() and v.fin() is True and v.v.denominator == 1:
            return int(v.v)
        if isinstance(v, SInt):
            s = z3.simplify(v.t)
            if z3.is_int_value(s):
                return s.as_long()
        raise Unsupported(f"concrete int needed, got {v}")

    def setitem(self, base, key, v):
        from . import npmodel
        if isinstance(base, SymArr):
            return npmodel.arr_setitem(self, base, key, v)
        if isinstance(base, list):
            k = self.conc_int(key)
            try:
                base[k] = v
            except IndexError:
                raise PyRaise("IndexError", "list assignment index out of range")
            return
        if isinstance(base, dict):
            base[self.concrete_key(key)] = v
            return
        if hasattr(base, "py_setitem"):
            return base.py_setitem(self, key, v)
        raise Unsupported(f"item assignment on {type(base).__name__}")

    # operators ---------------------------------------------------------------------
    def binop(self, op, a, b, inplace=False):
        from . import npmodel
        opn = type(op).__name__
        if isinstance(a, SymArr) or isinstance(b, SymArr):
            return npmodel.arr_binop(self, opn, a, b, inplace)
        from .heap import SymObjList, FStr
        if isinstance(a, SymObjList) and opn == "Add":
            if isinstance(b, (SymObjList, list)):
                return a.concat(b)
            raise PyRaise("TypeError", "can only concatenate list to list")
        if isinstance(b, SymObjList) and opn == "Add" and isinstance(a, list):
            from .heap import from_pylist
            return from_pylist(a).concat(b)
        if opn == "Add" and (isinstance(a, FStr) or isinstance(b, FStr)) and isinstance(a, (str, FStr)) and isinstance(b, (str, FStr)):
            pa = a.parts if isinstance(a, FStr) else [a]
            pb = b.parts if isinstance(b, FStr) else [b]
            return FStr(list(pa) + list(pb))
        if isinstance(a, str) or isinstance(b, str):
            if opn == "Add" and isinstance(a, str) and isinstance(b, str):
                return a + b
            if opn == "Mod" and isinstance(a, str):
                return "<fmt>"
            if opn == "Mult":
                return a * self.conc_int(b) if isinstance(a, str) else self.conc_int(a) * b
            raise PyRaise("TypeError", f"unsupported operand types for {opn}: str")
        if isinstance(a, (list, tuple)) and isinstance(b, (list, tuple)) and opn == "Add":
            if type(a) != type(b):
                raise PyRaise("TypeError", "can only concatenate list to list")
            return a + b
        if isinstance(a, list) and opn == "Mult":
            return a * self.conc_int(b)
        if isinstance(a, (set, frozenset)) and isinstance(b, (set, frozenset)):
            if opn == "Sub":
                return a - b
            if opn == "BitOr":
                return a | b
            if opn == "BitAnd":
                return a & b
        if a is None or b is None:
            raise PyRaise("TypeError", f"unsupported operand type(s) for {opn}: NoneType")
        if isinstance(a, (list, tuple, dict, Obj)) or isinstance(b, (list, tuple, dict, Obj)):
            raise PyRaise("TypeError", f"unsupported operand types for {opn}: {type(a).__name__}, {type(b).__name__}")
        return self.scalar_binop(opn, a, b)

    def scalar_binop(self, opn, a, b):
        a = self.norm_scalar(a)
        b = self.norm_scalar(b)
        ai = isinstance(a, (int, SInt))
        bi = isinstance(b, (int, SInt))
        if ai and bi:
            if opn == "Add":
                return mkint(iadd(a, b))
            if opn == "Sub":
                return mkint(isub(a, b))
            if opn == "Mult":
                return mkint(imul(a, b))
            if opn == "Div":
                return xdiv(XR.const(a), XR.const(b))
            if opn == "FloorDiv":
                if ctx().decide(icmp("==", b, 0)):
                    raise PyRaise("ZeroDivisionError", "integer division by zero")
                if isinstance(a, int) and isinstance(b, int):
                    return a // b
                if ctx().decide(icmp(">", b, 0)):
                    return mkint(zi(iterm(a)) / zi(iterm(b)))
                raise Unsupported("floor division by a negative symbolic int")
            if opn == "Mod":
                if ctx().decide(icmp("==", b, 0)):
                    raise PyRaise("ZeroDivisionError", "integer modulo by zero")
                if isinstance(a, int) and isinstance(b, int):
                    return a % b
                if ctx().decide(icmp(">", b, 0)):
                    return mkint(zi(iterm(a)) % zi(iterm(b)))
                raise Unsupported("modulo by a negative symbolic int")
            if opn == "Pow":
                if isinstance(b, int):
                    if b >= 0:
                        if isinstance(a, int):
                            return a ** b
                        r = 1
                        for _ in range(b):
                            r = imul(r, a)
                        return mkint(r)
                    if isinstance(a, int):
                        if a == 0:
                            raise PyRaise("ZeroDivisionError", "0 to a negative power")
                        return XR.const(Fraction(a) ** b)
                raise Unsupported("int power with symbolic exponent")
            raise Unsupported("int op " + opn)
        xa, xb = xr(a), xr(b)
        if opn == "Add":
            return xadd(xa, xb)
        if opn == "Sub":
            return xsub(xa, xb)
        if opn == "Mult":
            return xmul(xa, xb)
        if opn == "Div":
            return xdiv(xa, xb)
        if opn == "Pow":
            if isinstance(b, int) or (isinstance(b, XR) and b.is_const() and b.fin() is True and b.v.denominator == 1):
                k = b if isinstance(b, int) else int(b.v)
                if k >= 0:
                    r = XR.const(1)
                    r.npk = xa.npk
                    for _ in range(k):
                        r = xmul(r, xa)
                    return r
                r = XR.const(1)
                for _ in range(-k):
                    r = xmul(r, xa)
                return xdiv(XR.const(1, npk=xa.npk), r)
            raise Unsupported("float power with non-integer exponent")
        if opn == "FloorDiv" or opn == "Mod":
            raise Unsupported("float floor-division / modulo")
        raise Unsupported("float op " + opn)

    def norm_scalar(self, v):
        if isinstance(v, bool):
            return int(v)
        if isinstance(v, SBool):
            return mkint(iite(v.t, 1, 0))
        if isinstance(v, Fraction):
            return XR.const(v)
        if isinstance(v, (int, SInt, XR)):
            return v
        raise PyRaise("TypeError", f"unsupported operand type {type(v).__name__}")

    def compare(self, op, a, b):
        from . import npmodel
        opn = type(op).__name__
        if opn in ("Is", "IsNot"):
            same = self.identical(a, b)
            return same if opn == "Is" else (not same)
        if opn in ("In", "NotIn"):
            r = self.contains(b, a)
            return r if opn == "In" else mkbool(bnot(bterm(r)))
        if isinstance(a, SymArr) or isinstance(b, SymArr):
            return npmodel.arr_compare(self, opn, a, b)
        sym = {"Eq": "==", "NotEq": "!=", "Lt": "<", "LtE": "<=", "Gt": ">", "GtE": ">="}[opn]
        return self.scalar_compare(sym, a, b)

    def identical(self, a, b):
        if a is None or b is None:
            return a is b
        if isinstance(a, (bool, int, str)) and isinstance(b, (bool, int, str)):
            return type(a) == type(b) and a == b
        return a is b

    def is_num(self, v):
        return isinstance(v, (bool, int, SInt, SBool, XR, Fraction))

    def scalar_compare(self, sym, a, b):
        if self.is_num(a) and self.is_num(b):
            a2, b2 = self.norm_scalar(a), self.norm_scalar(b)
            if isinstance(a2, (int, SInt)) and isinstance(b2, (int, SInt)):
                return mkbool(icmp(sym, a2, b2))
            return mkbool(xcmp(sym, xr(a2), xr(b2)))
        if sym in ("==", "!="):
            eq = self.equal(a, b)
            return eq if sym == "==" else mkbool(bnot(bterm(eq)))
        if isinstance(a, str) and isinstance(b, str):
            return {"<": a < b, "<=": a <= b, ">": a > b, ">=": a >= b}[sym]
        if isinstance(a, (list, tuple)) and isinstance(b, (list, tuple)) and type(a) == type(b):
            for x, y in zip(a, b):
                if not ctx().decide(bterm(self.equal(x, y))):
                    return self.scalar_compare(sym, x, y)
            return {"<": len(a) < len(b), "<=": len(a) <= len(b), ">": len(a) > len(b), ">=": len(a) >= len(b)}[sym]
        if isinstance(a, Obj) and a.cls is not None:
            meth = {"<": "__lt__", ">": "__gt__", "<=": "__le__", ">=": "__ge__"}[sym]
            f = a.cls.lookup(meth)
            if f is not NOTFOUND:
                return self.call(BoundMethod(f, a), [b], {})
        raise PyRaise("TypeError", f"'{sym}' not supported between {type(a).__name__} and {type(b).__name__}")

    def equal(self, a, b):
        """Python == -> bool | SBool"""
        if self.is_num(a) and self.is_num(b):
            return self.scalar_compare("==", a, b)
        if hasattr(a, "py_eq") and not isinstance(a, (Obj,)):
            return a.py_eq(self, b)
        if hasattr(b, "py_eq") and not isinstance(b, (Obj,)):
            return b.py_eq(self, a)
        if a is None or b is None:
            return a is b
        if isinstance(a, str) or isinstance(b, str):
            return isinstance(a, str) and isinstance(b, str) and a == b
        if isinstance(a, (list, tuple)) and isinstance(b, (list, tuple)):
            if type(a) != type(b) or len(a) != len(b):
                return False
            return mkbool(band(*[bterm(self.equal(x, y)) for x, y in zip(a, b)]))
        if isinstance(a, (set, frozenset)) and isinstance(b, (set, frozenset)):
            return a == b
        if isinstance(a, dict) and isinstance(b, dict):
            if set(a.keys()) != set(b.keys()):
                return False
            return mkbool(band(*[bterm(self.equal(a[k], b[k])) for k in a]))
        if isinstance(a, Obj) and a.cls is not None:
            f = a.cls.lookup("__eq__")
            if f is not NOTFOUND:
                return self.call(BoundMethod(f, a), [b], {})
        if isinstance(a, SymArr) or isinstance(b, SymArr):
            from . import npmodel
            return npmodel.arr_compare(self, "Eq", a, b)
        if hasattr(a, "py_eq"):
            return a.py_eq(self, b)
        if hasattr(b, "py_eq"):
            return b.py_eq(self, a)
        return a is b

    def contains(self, container, item):
        if isinstance(container, dict):
            if hasattr(item, "sym_key"):
                return item.sym_key_in(self, container)
            return self.concrete_key(item) in container
        if isinstance(container, (set, frozenset)):
            if hasattr(item, "py_eq"):
                return mkbool(bor(*[bterm(item.py_eq(self, x)) for x in container]))
            if isinstance(item, SInt):
                # a symbolic integer in a set of concrete elements: equal to one of them (False for the empty set)
                return mkbool(bor(*[bterm(self.equal(x, item)) for x in container if isinstance(x, (int, SInt)) and not isinstance(x, bool)]))
            return self.concrete_key(item) in container
        if isinstance(container, (list, tuple)):
            return mkbool(bor(*[bterm(self.equal(x, item)) for x in container]))
        if isinstance(container, str):
            if not isinstance(item, str):
                raise PyRaise("TypeError", "'in <string>' requires string as left operand")
            return item in container
        if isinstance(container, SymArr):
            if container.items is not None:
                return mkbool(bor(*[bterm(self.equal(x, item)) for x in container.items]))
            raise Unsupported("'in' over symbolic array")
        if hasattr(container, "py_contains"):
            return container.py_contains(self, item)
        raise Unsupported(f"'in' on {type(container).__name__}")

    def np_map1(self, arr, f):
        from . import npmodel
        return npmodel.map1(arr, f)

    # calls ---------------------------------------------------------------------------
    def call(self, fn, args, kwargs):
        if isinstance(fn, Builtin):
            return fn.fn(self, args, kwargs)
        if isinstance(fn, BoundMethod):
            if isinstance(fn.fn, Builtin):
                return fn.fn.fn(self, [fn.selfv] + list(args), kwargs)
            return self.call_closure(fn.fn, [fn.selfv] + list(args), kwargs)
        if isinstance(fn, Closure):
            return self.call_closure(fn, list(args), kwargs)
        if isinstance(fn, ClassRef):
            return self.instantiate(fn, args, kwargs)
        if hasattr(fn, "py_call"):
            return fn.py_call(self, args, kwargs)
        if isinstance(fn, ModuleRef):
            raise Unsupported(f"call to unmodelled external {fn.name}")
        raise PyRaise("TypeError", f"{type(fn).__name__} object is not callable")

    def instantiate(self, cls, args, kwargs):
        if cls.qual in self.contracts:
            return self.contracts[cls.qual](self, cls, args, kwargs)
        o = Obj(cls)
        init = cls.lookup("__init__")
        if init is not NOTFOUND:
            self.call_closure(init, [o] + list(args), kwargs)
        elif args or kwargs:
            raise PyRaise("TypeError", f"{cls.name}() takes no arguments")
        return o

    def call_closure(self, fn, args, kwargs):
        if getattr(self, "_skip_once", None) == fn.qual:
            self._skip_once = None
        elif fn.qual in self.contracts:
            self.log_fn(fn, "callee-contract")
            return self.contracts[fn.qual](self, fn, args, kwargs)
        self.log_fn(fn, "body")
        node = fn.node
        a = node.args
        env = Env({}, fn.env, fn.module)
        env.fn_qual = fn.qual
        params = [p.arg for p in a.posonlyargs + a.args]
        ndef = len(fn.defaults)
        if len(args) > len(params):
            if a.vararg is None:
                raise PyRaise("TypeError", f"{fn.qual}() takes {len(params)} positional arguments but {len(args)} were given")
            env.vars[a.vararg.arg] = tuple(args[len(params):])
            args = args[:len(params)]
        elif a.vararg is not None:
            env.vars[a.vararg.arg] = ()
        for p, v in zip(params, args):
            env.vars[p] = v
        kw = dict(kwargs)
        for k, p in enumerate(params):
            if p in env.vars:
                if p in kw:
                    raise PyRaise("TypeError", f"{fn.qual}() got multiple values for argument '{p}'")
                continue
            if p in kw:
                env.vars[p] = kw.pop(p)
            elif k >= len(params) - ndef:
                env.vars[p] = fn.defaults[k - (len(params) - ndef)]
            else:
                raise PyRaise("TypeError", f"{fn.qual}() missing required argument '{p}'")
        for p in a.kwonlyargs:
            if p.arg in kw:
                env.vars[p.arg] = kw.pop(p.arg)
            elif p.arg in fn.kwdefaults:
                env.vars[p.arg] = fn.kwdefaults[p.arg]
            else:
                raise PyRaise("TypeError", f"missing keyword-only argument '{p.arg}'")
        if a.kwarg is not None:
            env.vars[a.kwarg.arg] = kw
        elif kw:
            raise PyRaise("TypeError", f"{fn.qual}() got an unexpected keyword argument '{next(iter(kw))}'")
        self.call_depth += 1
        if self.call_depth > 200:
            raise Unsupported("recursion depth exceeded")
        self.fn_stack.append(fn)
        self.env_stack.append(env)
        try:
            if isinstance(node, ast.Lambda):
                return self.eval(node.body, env)
            try:
                self.exec_block(node.body, env)
            except ReturnEx as r:
                return r.v
            return None
        finally:
            self.fn_stack.pop()
            self.env_stack.pop()
            self.call_depth -= 1

    def run(self, fn, args, kwargs=None):
        """execute the body of fn; its own contract (if any) is bypassed for this outermost call only"""
        if isinstance(fn, BoundMethod):
            args = [fn.selfv] + list(args)
            fn = fn.fn
        self._skip_once = fn.qual
        return self.call_closure(fn, list(args), kwargs or {})
