"""numpy fragment (axiomatised, trusted; audited every run by the CPython cross-check).

Arrays are values.SymArr: (length, index -> element).  Every operation is pointwise on closures, so a
postcondition  forall j. P(result[j])  is proved at one Skolem index.  Running sums/products are ghost folds
(values.GhostFold) whose recurrence is instantiated where evaluated.
"""
import z3
from fractions import Fraction
from .core import *
from .core import _isT, _isF
from .values import *

EPS = Fraction(1, 2 ** 52)


def to_arr(I, v):
    """list / tuple / scalar -> SymArr snapshot (None if scalar).  Operations have value semantics: the result of a
    pointwise operation must not change when an operand is mutated in place afterwards."""
    if isinstance(v, SymArr):
        return v.copy()
    if isinstance(v, (list, tuple)):
        items = []
        for x in v:
            if isinstance(x, (list, tuple, SymArr)):
                raise Unsupported("nested array")
            items.append(x)
        kind = elem_kind(items[0]) if items else "xr"
        if any(isinstance(x, (XR, Fraction)) for x in items) and all(is_scalar(x) for x in items):
            items = [xr(x if not isinstance(x, SBool) else x_from_bool(x)) for x in items]   # mixed int/float -> float array
            kind = "xr"
        return SymArr(len(items), kind=kind, items=[npscalar(x) for x in items])
    return None


def elem_kind(x):
    if isinstance(x, (bool, SBool)):
        return "bool"
    if isinstance(x, (int, SInt)):
        return "int"
    if isinstance(x, (XR, Fraction)):
        return "xr"
    return "obj"


def npscalar(x):
    if isinstance(x, XR):
        return x.asnp()
    if isinstance(x, Fraction):
        return XR.const(x, npk=True)
    return x


def is_scalar(v):
    return isinstance(v, (bool, int, SInt, SBool, XR, Fraction))


def map1(arr, f, kind=None):
    arr = arr.copy()
    if arr.items is not None:
        items = [f(x) for x in arr.items]
        return SymArr(len(items), kind=kind or (elem_kind(items[0]) if items else arr.kind), items=items)
    probe_kind = kind
    r = SymArr(arr.length, lambda i: f(arr.at(i)), kind or arr.kind)
    return r


def same_len(I, a, b):
    la, lb = a.length, b.length
    if isinstance(la, int) and isinstance(lb, int):
        if la != lb:
            if la == 1 or lb == 1:
                return
            raise PyRaise("ValueError", f"operands could not be broadcast together with shapes ({la},) ({lb},)")
        return
    c = ctx()
    if not c.decide(icmp("==", la, lb)):
        # broadcasting with length-1 arrays
        if c.decide(bor(icmp("==", la, 1), icmp("==", lb, 1))):
            raise Unsupported("symbolic length-1 broadcast")
        raise PyRaise("ValueError", "operands could not be broadcast together")


def map2(I, a, b, f, kind=None):
    """pointwise binary op with scalar broadcasting"""
    A, Bv = to_arr(I, a) if not is_scalar(a) else None, to_arr(I, b) if not is_scalar(b) else None
    if A is None and Bv is None:
        return f(a, b)
    if A is not None and Bv is not None:
        same_len(I, A, Bv)
        if A.items is not None and Bv.items is not None:
            if len(A.items) == len(Bv.items):
                items = [f(x, y) for x, y in zip(A.items, Bv.items)]
            elif len(A.items) == 1:
                items = [f(A.items[0], y) for y in Bv.items]
            else:
                items = [f(x, Bv.items[0]) for x in A.items]
            return SymArr(len(items), kind=kind or (elem_kind(items[0]) if items else "xr"), items=items)
        n = A.length if A.items is None else Bv.length
        return SymArr(n, lambda i: f(A.at(i), Bv.at(i)), kind or "xr")
    if A is not None:
        if A.items is not None:
            items = [f(x, b) for x in A.items]
            return SymArr(len(items), kind=kind or (elem_kind(items[0]) if items else "xr"), items=items)
        return SymArr(A.length, lambda i: f(A.at(i), b), kind or "xr")
    if Bv.items is not None:
        items = [f(a, y) for y in Bv.items]
        return SymArr(len(items), kind=kind or (elem_kind(items[0]) if items else "xr"), items=items)
    return SymArr(Bv.length, lambda i: f(a, Bv.at(i)), kind or "xr")


def np_scalar_op(I, opn, x, y):
    """elementwise arithmetic with numpy semantics (division never raises)"""
    x2, y2 = I.norm_scalar(x), I.norm_scalar(y)
    xi = isinstance(x2, (int, SInt))
    yi = isinstance(y2, (int, SInt))
    if xi and yi and opn in ("Add", "Sub", "Mult"):
        return I.scalar_binop(opn, x2, y2)
    if xi and yi and opn in ("FloorDiv", "Mod"):
        return I.scalar_binop(opn, x2, y2)
    xa, ya = xr(x2).asnp(), xr(y2).asnp()
    if opn == "Div":
        return xdiv_np(xa, ya)
    r = I.scalar_binop(opn, xa, ya)
    if isinstance(r, XR):
        r.npk = True
    return r


def arr_binop(I, opn, a, b, inplace=False):
    # python list semantics
    if isinstance(a, SymArr) and a.is_list and not (isinstance(b, SymArr) and not b.is_list):
        if opn == "Add":
            bb = to_arr(I, b) if not isinstance(b, SymArr) else b
            if bb is None:
                raise PyRaise("TypeError", "can only concatenate list to list")
            return concat(I, a, bb, True)
        if opn == "Mult" and is_scalar(b):
            raise Unsupported("list repetition of symbolic list")
    if isinstance(b, SymArr) and b.is_list and isinstance(a, list) and opn == "Add":
        return concat(I, to_arr(I, a), b, True)
    return map2(I, a, b, lambda x, y: np_scalar_op(I, opn, x, y))


def concat(I, a, b, as_list=False):
    a, b = a.copy(), b.copy()
    if a.items is not None and b.items is not None:
        r = SymArr(0, kind=a.kind if a.items else b.kind, items=list(a.items) + list(b.items))
    else:
        na = a.length
        r = SymArr(mkint(iadd(na, b.length)), lambda i: vite(icmp("<", i, na), a.at(i), b.at(mkint(isub(i, na)))), a.kind)
        r.fold_alias = (a, na)        # running folds over the first len(a) elements are a's running folds (same elements)
    r.is_list = as_list
    return r


def arr_compare(I, opn, a, b):
    sym = {"Eq": "==", "NotEq": "!=", "Lt": "<", "LtE": "<=", "Gt": ">", "GtE": ">="}[opn]
    return map2(I, a, b, lambda x, y: I.scalar_compare(sym, x, y), kind="bool")


# ---------------------------------------------------------------- indexing

def norm_slice(I, arr, sl):
    """-> (start, stop) as int|z3 terms, clamped like Python for step None/1"""
    if sl.step is not None and I.conc_int(sl.step) != 1:
        raise Unsupported("slice step")
    n = arr.length

    def norm(v, default):
        if v is None:
            return default
        v = idx_term(v) if not isinstance(v, XR) else I.conc_int(v)
        if isinstance(v, int) and isinstance(n, int):
            if v < 0:
                v = max(n + v, 0)
            return min(v, n)
        # symbolic
        if isinstance(v, int):
            if v < 0:
                t = iadd(n, v)
                return mkint(fold_ite(icmp("<", t, 0), 0, mkint(t)))
            if v == 0:
                return 0
            return mkint(fold_ite(icmp("<", n, v), mkint(n), v))
        t = fold_ite(icmp("<", v, 0), mkint(iadd(n, v)), mkint(v))
        t = fold_ite(icmp("<", t, 0), 0, t)
        t = fold_ite(icmp(">", t, n), mkint(n), t)
        return mkint(t)

    start = norm(sl.start, 0)
    stop = norm(sl.stop, n)
    return start, stop


def arr_getitem(I, arr, key):
    if isinstance(key, slice):
        arr = arr.copy()
        start, stop = norm_slice(I, arr, key)
        if arr.items is not None and isinstance(start, int) and isinstance(stop, int):
            r = SymArr(0, kind=arr.kind, items=arr.items[start:stop])
        else:
            ln = isub(iterm(stop), iterm(start))
            ln = mkint(fold_ite(icmp("<", ln, 0), 0, mkint(ln)))
            r = SymArr(ln, lambda i: arr.at(mkint(iadd(start, i))), arr.kind)
            if isinstance(start, int) and start == 0:
                r.prefix_of = arr      # running folds over a prefix ARE the parent's running folds
        r.is_list = arr.is_list
        return r
    if isinstance(key, SymArr):
        if key.kind == "bool":
            raise Unsupported("boolean-mask read")
        return map1(key, lambda i: arr.at_checked(i), arr.kind)
    if isinstance(key, (list,)):
        return SymArr(0, kind=arr.kind, items=[arr.at_checked(i) for i in key])
    if isinstance(key, (bool, SBool)):
        raise Unsupported("bool index read")
    return arr.at_checked(key)


def arr_setitem(I, arr, key, v):
    if isinstance(key, SymArr):
        key = key.copy()
    if isinstance(key, SymArr) and key.kind == "bool":
        same_len(I, arr, key)
        if isinstance(v, SymArr):
            raise Unsupported("mask assignment of array value")
        val = coerce_elem(arr, v)
        arr.set_where(lambda i: bterm(key.at(i)), lambda i: val)
        return
    if isinstance(key, (bool, SBool)):
        # numpy: a[True] = v sets every element, a[False] = v sets none
        val = coerce_elem(arr, v)
        kt = bterm(key)
        arr.set_where(lambda i: kt, lambda i: val)
        return
    if isinstance(key, slice):
        start, stop = norm_slice(I, arr, key)
        if isinstance(v, SymArr) or isinstance(v, (list, tuple)):
            raise Unsupported("slice assignment of a sequence")
        val = coerce_elem(arr, v)
        arr.set_where(lambda i: band(icmp(">=", i, start), icmp("<", i, stop)), lambda i: val)
        return
    if isinstance(key, (SymArr, list)):
        idxs = to_arr(I, key)
        if idxs.items is None:
            # symbolic index array: a[idx] = v  sets every position that occurs in idx
            if not hasattr(idxs, "member"):
                raise Unsupported("assignment through a symbolic index array")
            val = coerce_elem(arr, v)
            n = arr.length
            # bounds: every index must be < n (numpy raises IndexError otherwise)
            rng_ = getattr(idxs, "elem_range", None)
            if rng_ is not None:
                if not ctx().decide(band(icmp(">=", rng_[0], 0), icmp("<=", rng_[1], n))):
                    raise PyRaise("IndexError", "index array out of bounds")
            elif not skolem_valid(lambda i: mkbool(band(icmp(">=", idxs.at(i), 0), icmp("<", idxs.at(i), n))), idxs.length, "idxbound"):
                raise Unsupported("cannot show index array within bounds")
            arr.set_where(lambda i: idxs.member(i), lambda i: val)
            return
        val = coerce_elem(arr, v)
        for ix in idxs.items:
            arr.set_at(ix, val)
        return
    arr.set_at(key, coerce_elem(arr, v))


def coerce_elem(arr, v):
    if isinstance(v, SymArr):
        return v
    if arr.kind == "xr":
        if isinstance(v, (bool, int, SInt, SBool, Fraction, XR)):
            r = xr(v) if not isinstance(v, SBool) else x_from_bool(v)
            return r.asnp()
    if arr.kind == "int" and isinstance(v, XR):
        raise Unsupported("float stored into int array")
    return v


# ---------------------------------------------------------------- constructors / functions

def full(n, val, kind="xr"):
    n = idx_term(n)
    if isinstance(n, int):
        if n < 0:
            raise PyRaise("ValueError", "negative dimensions are not allowed")
        return SymArr(n, kind=kind, items=[val] * n)
    c = ctx()
    if c.decide(icmp("<", n, 0)):
        raise PyRaise("ValueError", "negative dimensions are not allowed")
    return SymArr(n, lambda i: val, kind)


def size_arg(I, v):
    if isinstance(v, XR):
        if v.is_const() and v.fin() is True and v.v.denominator == 1:
            return int(v.v)
        if v.is_const():
            raise PyRaise("TypeError", "float cannot be interpreted as an integer")
        raise PyRaise("TypeError", "'float' object cannot be interpreted as an integer")
    if isinstance(v, (bool, int, SInt)):
        return iterm(v)
    if isinstance(v, tuple) and len(v) == 1:
        return size_arg(I, v[0])
    raise Unsupported("array size " + str(type(v)))


def cum(I, a, op):
    arr = to_arr(I, a)
    if arr is None:
        raise Unsupported("cumsum of scalar")
    f = arr.fold(op)
    I.trace.setdefault("cum" + op, []).append(arr)
    if arr.items is not None:
        return SymArr(0, kind="int" if f_intkind(f, arr) else "xr", items=[f.at(k + 1) for k in range(len(arr.items))])
    return SymArr(arr.length, lambda i: f.at(mkint(iadd(i, 1))), "int" if f.intkind else "xr")


def f_intkind(f, arr):
    f.at(0)
    return bool(getattr(f, "intkind", False)) and len(arr.items) > 0


def install(I):
    from .interp import Builtin, ModuleRef
    B = I.builtins
    I.trace = {}

    # leading parameters of the modelled numpy functions, so that keyword calls (np.insert(arr=.., obj=.., values=..)) are
    # normalised to the positional form the models read
    SIGS = {"insert": ["arr", "obj", "values"], "append": ["arr", "values"], "cumsum": ["a"], "cumprod": ["a"], "sum": ["a"],
            "mean": ["a"], "max": ["a"], "amax": ["a"], "min": ["a"], "amin": ["a"], "argmax": ["a"], "minimum": ["x1", "x2"],
            "maximum": ["x1", "x2"], "repeat": ["a", "repeats"], "tile": ["A", "reps"], "isclose": ["a", "b"], "array": ["object"],
            "asarray": ["a"], "ones": ["shape"], "zeros": ["shape"], "searchsorted": ["a", "v"], "quantile": ["a", "q"],
            "divide": ["x1", "x2"], "true_divide": ["x1", "x2"], "multiply": ["x1", "x2"], "add": ["x1", "x2"], "subtract": ["x1", "x2"],
            "zeros_like": ["a"], "sqrt": ["x"], "abs": ["x"], "absolute": ["x"], "isfinite": ["x"], "isnan": ["x"], "isinf": ["x"], "all": ["a"],
            "any": ["a"], "ones_like": ["a"], "floor": ["x"], "ceil": ["x"], "exp": ["x"], "log": ["x"]}

    def reg(name, f):
        sig = SIGS.get(name)
        if sig:
            def g(I_, a, k, f=f, sig=sig):
                if k and any(nm in k for nm in sig):
                    a = list(a)
                    k = dict(k)
                    for idx, nm in enumerate(sig):
                        if idx < len(a):
                            if nm in k:
                                raise PyRaise("TypeError", f"got multiple values for argument '{nm}'")
                            continue
                        if nm in k and idx == len(a):
                            a.append(k.pop(nm))
                return f(I_, a, k)
        else:
            g = f
        for pre in ("np.", "numpy."):
            B[pre + name] = Builtin("np." + name, g)

    B["np.inf"] = B["numpy.inf"] = XR.const(float("inf"))
    B["np.nan"] = B["numpy.nan"] = XR.const(float("nan"))
    B["np.infty"] = B["numpy.infty"] = XR.const(float("inf"))

    class FInfo:
        def py_getattr(self, I_, name):
            if name == "eps":
                return XR.const(EPS, npk=True)
            raise Unsupported("finfo." + name)

    reg("finfo", lambda I_, a, k: FInfo())

    def np_array(I_, a, k):
        v = a[0]
        from .heap import FilteredArr
        if isinstance(v, FilteredArr):
            return v                  # the array of the kept elements, in order (read pointwise by the proof scripts)
        if isinstance(v, SymArr):
            r = v.copy()
            r.is_list = False
            if r.items is not None:
                r.items = [npscalar(x) for x in r.items]
            return r
        if is_scalar(v):
            return npscalar(v)  # 0-d array: treated as a numpy scalar
        arr = to_arr(I_, v)
        if arr.kind == "obj":
            raise Unsupported("np.array of objects")
        # mixed int/float lists become float arrays
        if arr.items and any(isinstance(x, XR) for x in arr.items):
            arr.items = [xr(I_.norm_scalar(x)).asnp() if not isinstance(x, XR) else x for x in arr.items]
            arr.kind = "xr"
        return arr

    reg("array", np_array)
    reg("asarray", np_array)

    def np_ones(I_, a, k):
        return full(size_arg(I_, a[0]), XR.const(1, npk=True))

    def np_zeros(I_, a, k):
        return full(size_arg(I_, a[0]), XR.const(0, npk=True))

    reg("ones", np_ones)
    reg("zeros", np_zeros)

    def np_ones_like(I_, a, k):
        arr = to_arr(I_, a[0])
        if arr is None:
            return XR.const(1, npk=True) if isinstance(a[0], XR) else 1
        one = XR.const(1, npk=True) if arr.kind == "xr" else 1
        if arr.items is not None:
            return SymArr(0, kind=arr.kind, items=[one] * len(arr.items))
        return SymArr(arr.length, lambda i: one, arr.kind)

    reg("ones_like", np_ones_like)

    def np_arange(I_, a, k):
        step = k.get("step", None)
        args = list(a)
        if len(args) == 3:
            step = args.pop()
        if len(args) == 1:
            lo, hi = 0, args[0]
        else:
            lo, hi = args[0], args[1]
        if step is None:
            step = 1
        if any(isinstance(x, XR) for x in (lo, hi, step)):
            if all(isinstance(x, XR) and x.is_const() or isinstance(x, int) for x in (lo, hi, step)):
                lo, hi, step = [I_.conc_int(x) for x in (lo, hi, step)]
            else:
                raise Unsupported("arange with float bounds")
        lo, hi, step = iterm(lo), iterm(hi), iterm(step)
        if all(isinstance(x, int) for x in (lo, hi, step)):
            if step == 0:
                raise PyRaise("ZeroDivisionError", "arange step 0")
            return SymArr(0, kind="int", items=list(range(lo, hi, step)))
        c = ctx()
        if isinstance(step, int) and step == 1:
            n = mkint(iite(icmp(">", isub(hi, lo), 0), isub(hi, lo), 0))
            return SymArr(n, lambda i: mkint(iadd(lo, i)), "int")
        # general positive step: n = ceil((hi-lo)/step)
        if c.decide(icmp("==", step, 0)):
            raise PyRaise("ZeroDivisionError", "arange step 0")
        if not c.decide(icmp(">", step, 0)):
            raise Unsupported("arange with negative symbolic step")
        d = isub(hi, lo)
        n = iite(icmp(">", d, 0), (zi(d) + zi(step) - 1) / zi(step), 0)
        r = SymArr(mkint(n), lambda i: mkint(iadd(lo, imul(step, i))), "int")
        lo_, step_, hi_ = lo, step, hi
        r.member = lambda i: band(icmp(">=", i, lo_), icmp("<", i, hi_), (zi(isub(i, lo_)) % zi(step_)) == 0)
        r.elem_range = (lo_, hi_)      # by definition of arange every element lies in [lo, hi)
        return r

    reg("arange", np_arange)

    reg("cumsum", lambda I_, a, k: cum(I_, a[0], "+"))
    reg("cumprod", lambda I_, a, k: cum(I_, a[0], "*"))

    def np_insert(I_, a, k):
        arr, pos, val = to_arr(I_, a[0]), a[1], a[2]
        if I_.conc_int(pos) != 0:
            raise Unsupported("np.insert at position != 0")
        val = coerce_elem(arr, val) if arr.kind == "xr" else val
        if arr.kind == "int" and isinstance(val, XR):
            raise Unsupported("np.insert float into int array")
        if arr.items is not None:
            return SymArr(0, kind=arr.kind, items=[val] + list(arr.items))
        return SymArr(mkint(iadd(arr.length, 1)), lambda i: vite(icmp("==", i, 0), val, arr.at(mkint(isub(i, 1)))), arr.kind)

    reg("insert", np_insert)

    def np_append(I_, a, k):
        x, y = a[0], a[1]
        X = to_arr(I_, x) if not is_scalar(x) else SymArr(0, kind="xr", items=[npscalar(x)])
        Y = to_arr(I_, y) if not is_scalar(y) else SymArr(0, kind="xr", items=[npscalar(y)])
        if X.items is not None and len(X.items) == 0:
            r = Y.copy()
            r.is_list = False
            return r
        return concat(I_, X, Y)

    reg("append", np_append)

    def np_repeat(I_, a, k):
        arr, rep = to_arr(I_, a[0]), iterm(a[1])
        if arr.items is not None and isinstance(rep, int):
            return SymArr(0, kind=arr.kind, items=[x for x in arr.items for _ in range(rep)])
        if ctx().decide(icmp("<=", rep, 0)):
            if ctx().decide(icmp("<", rep, 0)):
                raise PyRaise("ValueError", "repeats may not contain negative values")
            return SymArr(0, kind=arr.kind, items=[])
        return SymArr(mkint(imul(arr.length, rep)), lambda i: arr.at(mkint(zi(i) / zi(rep))), arr.kind)

    reg("repeat", np_repeat)

    def np_tile(I_, a, k):
        arr, rep = to_arr(I_, a[0]), iterm(a[1])
        if arr.items is not None and isinstance(rep, int):
            return SymArr(0, kind=arr.kind, items=list(arr.items) * max(rep, 0))
        c = ctx()
        if c.decide(icmp("<=", rep, 0)):
            return SymArr(0, kind=arr.kind, items=[])
        n = arr.length
        if c.decide(icmp("<=", n, 0)):
            return SymArr(0, kind=arr.kind, items=[])
        return SymArr(mkint(imul(n, rep)), lambda i: arr.at(mkint(zi(i) % zi(n))), arr.kind)

    reg("tile", np_tile)

    def unary(name, f):
        def g(I_, a, k):
            v = a[0]
            if is_scalar(v):
                return f(xr(I_.norm_scalar(v)).asnp())
            arr = to_arr(I_, v)
            return map1(arr, lambda x: f(xr(I_.norm_scalar(x)).asnp()), "xr")
        reg(name, g)

    unary("sqrt", xsqrt)
    unary("abs", xabs)
    unary("absolute", xabs)

    def np_isfinite(I_, a, k):
        v = a[0]
        if is_scalar(v):
            if isinstance(v, (int, SInt, bool)):
                return True
            return mkbool(xr(v).fin())
        return map1(to_arr(I_, v), lambda x: True if isinstance(x, (int, SInt, bool)) else mkbool(xr(x).fin()), "bool")

    reg("isfinite", np_isfinite)
    reg("isnan", lambda I_, a, k: (False if isinstance(a[0], (int, SInt, bool)) else mkbool(xr(a[0]).nan)) if is_scalar(a[0]) else map1(to_arr(I_, a[0]), lambda x: False if isinstance(x, (int, SInt, bool)) else mkbool(xr(x).nan), "bool"))
    reg("isinf", lambda I_, a, k: (False if isinstance(a[0], (int, SInt, bool)) else mkbool(xr(a[0]).inf())) if is_scalar(a[0]) else map1(to_arr(I_, a[0]), lambda x: False if isinstance(x, (int, SInt, bool)) else mkbool(xr(x).inf()), "bool"))

    def binary(name, f):
        def g(I_, a, k):
            return map2(I_, a[0], a[1], lambda x, y: f(xr(I_.norm_scalar(x)), xr(I_.norm_scalar(y))))
        reg(name, g)

    binary("minimum", xminimum)
    binary("maximum", xmaximum)

    def np_zeros_like(I_, a, k):
        arr = to_arr(I_, a[0])
        return SymArr(arr.length, lambda i: XR.const(0, npk=True), "xr") if arr.items is None else \
            SymArr(len(arr.items), kind="xr", items=[XR.const(0, npk=True) for _ in arr.items])

    reg("zeros_like", np_zeros_like)

    def ufunc_with_where(name, f):
        """np.add / subtract / multiply / divide (x1, x2, out=None, where=True): elementwise; where the mask is false the result
        keeps out's value (an uninitialised value if out is absent: modelled as an unconstrained real)"""
        def g(I_, a, k):
            res = map2(I_, a[0], a[1], lambda x, y: f(xr(I_.norm_scalar(x)).asnp(), xr(I_.norm_scalar(y)).asnp()))
            w = k.get("where", True)
            if w is True:
                return res
            out = k.get("out")
            if out is None:
                fill = lambda i: XR.var(ctx().fresh("uninitialised"), npk=True)
                return map2(I_, res, w, lambda r, m: r) if False else _select(I_, w, res, None)
            return _select(I_, w, res, out)
        reg(name, g)

    def _select(I_, mask, yes, no):
        M, Y = to_arr(I_, mask), to_arr(I_, yes)
        Nn = to_arr(I_, no) if no is not None else None
        def el(i):
            other = Nn.at(i) if Nn is not None else XR.var(ctx().fresh("uninitialised"), npk=True)
            return vite(bterm(mkbool(I_.truth_term(M.at(i)))), Y.at(i), other)
        if Y.items is not None and M.items is not None and (Nn is None or Nn.items is not None):
            return SymArr(len(Y.items), kind="xr", items=[el(i) for i in range(len(Y.items))])
        return SymArr(Y.length, el, "xr")

    ufunc_with_where("divide", xdiv_np)
    ufunc_with_where("true_divide", xdiv_np)
    ufunc_with_where("multiply", xmul)
    ufunc_with_where("add", xadd)
    ufunc_with_where("subtract", xsub)

    def np_isclose(I_, a, k):
        rtol = k.get("rtol", XR.const(Fraction(1, 10 ** 5)))
        atol = k.get("atol", XR.const(Fraction(1, 10 ** 8)))
        return map2(I_, a[0], a[1], lambda x, y: mkbool(xisclose(xr(I_.norm_scalar(x)), xr(I_.norm_scalar(y)), atol, rtol)), kind="bool")

    reg("isclose", np_isclose)

    def np_sum(I_, a, k):
        v = a[0]
        from .heap import FilteredArr
        if isinstance(v, FilteredArr):
            ind = v.indicator()
            r = ind.fold("+").at(v.length)
            I_.trace.setdefault("filtered_sum", []).append((r, v, ind))
            return r
        if is_scalar(v):
            return v
        arr = to_arr(I_, v)
        if arr.kind == "obj":
            raise Unsupported("np.sum of objects")
        if arr.items is not None and len(arr.items) == 0:
            return XR.const(0, npk=True)   # np.sum([]) is float 0.0
        if arr.items is None and arr.kind == "bool":
            if skolem_valid(lambda i: mkbool(bnot(bterm(arr.at(i)))), arr.length, "nonetrue"):
                return 0
            # count of true entries, axiomatised: 0 <= c <= n;  c = 0 => no entry true;  c > 0 => some entry true
            c = ctx()
            cnt = z3.Int(c.fresh("count"))
            w = z3.Int(c.fresh("w_cnt"))
            reg_witness(c, w)
            n_ = arr.length
            c.assume(z3.And(cnt >= 0, cnt <= zi(n_)))
            c.assume(z3.Implies(cnt > 0, z3.And(w >= 0, w < zi(n_), zb(bterm(arr.at(w))))))
            c.universals.append((cnt == 0, lambda i: bnot(bterm(arr.at(i))), n_))
            return SInt(cnt)
        f = arr.fold("+")
        r = f.at(arr.length)
        if arr.items is None and not f.intkind:
            pass
        return r

    reg("sum", np_sum)

    def np_mean(I_, a, k):
        from .heap import FilteredArr
        if isinstance(a[0], FilteredArr):
            # mean of the kept elements = (sum over kept) / (number kept); numpy gives NaN (0/0) for an empty selection
            v = a[0]
            ind = v.indicator()
            tot = ind.fold("+").at(v.length)
            cntarr = SymArr(v.length, lambda i: mkint(iite(v.cond(i), 1, 0)), "int")
            cnt = cntarr.fold("+").at(v.length)
            I_.trace.setdefault("filtered_mean", []).append((v, ind, cntarr))
            return xdiv_np(xr(I_.norm_scalar(tot)).asnp(), XR.const(cnt, npk=True))
        arr = to_arr(I_, a[0])
        if arr is None:
            return a[0]
        s = np_sum(I_, [arr], {})
        return xdiv_np(xr(I_.norm_scalar(s)).asnp(), XR.const(arr.length, npk=True) if not isinstance(arr.length, int) else XR.const(arr.length, npk=True))

    reg("mean", np_mean)

    def np_max(I_, a, k):
        v = a[0]
        if is_scalar(v):
            return v
        arr = to_arr(I_, v)
        if arr.kind in ("int", "bool") and arr.items is not None:
            if not arr.items:
                raise PyRaise("ValueError", "zero-size array to reduction operation maximum which has no identity")
            acc = I_.norm_scalar(arr.items[0])
            for x in arr.items[1:]:
                x = I_.norm_scalar(x)
                acc = vite(icmp(">", x, acc), x, acc)
            return acc
        if arr.kind != "xr":
            arr = map1(arr, lambda x: xr(I_.norm_scalar(x)).asnp(), "xr")
        return arr_extreme(arr, "max")

    def np_min(I_, a, k):
        v = a[0]
        if is_scalar(v):
            return v
        arr = to_arr(I_, v)
        if arr.kind in ("int", "bool") and arr.items is not None:
            if not arr.items:
                raise PyRaise("ValueError", "zero-size array to reduction operation minimum which has no identity")
            acc = I_.norm_scalar(arr.items[0])
            for x in arr.items[1:]:
                x = I_.norm_scalar(x)
                acc = vite(icmp("<", x, acc), x, acc)
            return acc
        if arr.kind != "xr":
            arr = map1(arr, lambda x: xr(I_.norm_scalar(x)).asnp(), "xr")
        return arr_extreme(arr, "min")

    reg("max", np_max)
    reg("min", np_min)
    reg("amax", np_max)
    reg("amin", np_min)

    def np_argmax(I_, a, k):
        arr = to_arr(I_, a[0])
        if arr.kind == "bool":
            # first True, 0 if none
            if arr.items is not None:
                r = 0
                for kk in range(len(arr.items) - 1, -1, -1):
                    r = mkint(iite(bterm(arr.items[kk]), kk, r))
                return r
            c = ctx()
            r = z3.Int(c.fresh("argmax"))
            reg_witness(c, r)
            n = arr.length
            anyv = arr_any(arr)
            c.assume(z3.And(r >= 0, z3.Implies(zi(n) > 0, r < zi(n))))
            c.assume(bimp(bterm(anyv), bterm(arr.at(r))))
            c.assume(bimp(bnot(bterm(anyv)), r == 0))
            c.universals.append((bterm(anyv), lambda i: bimp(icmp("<", i, r), bnot(bterm(arr.at(i)))), n))
            return SInt(r)
        if arr.items is not None:
            if not arr.items:
                raise PyRaise("ValueError", "attempt to get argmax of an empty sequence")
            best, bi = arr.items[0], 0
            for kk in range(1, len(arr.items)):
                c_ = I_.scalar_compare(">", arr.items[kk], best)
                bi = vite(c_, kk, bi)
                best = vite(c_, arr.items[kk], best)
            return bi
        raise Unsupported("argmax of symbolic numeric array")

    reg("argmax", np_argmax)

    def np_all(I_, a, k):
        arr = to_arr(I_, a[0])
        if arr is None:
            return mkbool(I_.truth_term(a[0]))
        return I_.builtins["all"].fn(I_, [arr], {})

    def np_any(I_, a, k):
        arr = to_arr(I_, a[0])
        if arr is None:
            return mkbool(I_.truth_term(a[0]))
        return I_.builtins["any"].fn(I_, [arr], {})

    reg("all", np_all)
    reg("any", np_any)

    def np_searchsorted(I_, a, k):
        arr = to_arr(I_, a[0])
        v = a[1]
        side = k.get("side", a[2] if len(a) > 2 else "left")
        if arr.items is None:
            # contract of np.searchsorted on a SORTED array (sortedness is checked at a Skolem index: a[i] <= a[i+1]):
            # result r in [0, len]; left: a[i] < v for i < r and a[i] >= v for i >= r; right: a[i] <= v for i < r, a[i] > v for i >= r
            c = ctx()
            L = arr.length
            if not skolem_valid(lambda i: mkbool(bimp(icmp("<", iadd(i, 1), L), bterm(I_.scalar_compare("<=", arr.at(i), arr.at(mkint(iadd(i, 1))))))), L, "sorted"):
                raise Unsupported("searchsorted: cannot show the array sorted")
            r = z3.Int(c.fresh("ssorted"))
            reg_witness(c, r)
            reg_witness(c, r - 1)
            reg_witness(c, z3.IntVal(0))
            reg_witness(c, z3.simplify(zi(L) - 1))
            c.assume(z3.And(r >= 0, r <= zi(L)))
            lt, ge = ("<", ">=") if side == "left" else ("<=", ">")
            c.universals.append((True, lambda i: bimp(icmp("<", i, r), bterm(I_.scalar_compare(lt, arr.at(i), v))), L))
            c.universals.append((True, lambda i: bimp(icmp(">=", i, r), bterm(I_.scalar_compare(ge, arr.at(i), v))), L))
            return SInt(r)
        # number of elements < v (left) or <= v (right), array assumed sorted
        cnt = 0
        for x in arr.items:
            c_ = I_.scalar_compare("<" if side == "left" else "<=", x, v)
            cnt = mkint(iadd(cnt, iite(bterm(c_), 1, 0)))
        return cnt

    reg("searchsorted", np_searchsorted)

    def np_quantile(I_, a, k):
        raise Unsupported("np.quantile (use a contract)")

    reg("quantile", np_quantile)

    class ErrState:
        pass

    reg("errstate", lambda I_, a, k: ErrState())
    reg("float64", lambda I_, a, k: xr(I_.norm_scalar(a[0])).asnp())
    reg("int64", lambda I_, a, k: I_.builtins["int"].fn(I_, a, k))
    B["np.ndarray"] = B["numpy.ndarray"] = ModuleRef("np.ndarray")


def arr_method(I, arr, name):
    from .interp import Builtin

    def mk(f):
        return Builtin(name, lambda I_, a, k: f(*a, **k))

    if name == "append" and arr.is_list:
        return mk(lambda v: arr.append(v))
    if name == "copy":
        return mk(lambda: arr.copy())
    if name == "sum":
        return mk(lambda: I.builtins["np.sum"].fn(I, [arr], {}))
    if name == "max":
        return mk(lambda: I.builtins["np.max"].fn(I, [arr], {}))
    if name == "min":
        return mk(lambda: I.builtins["np.min"].fn(I, [arr], {}))
    if name == "mean":
        return mk(lambda: I.builtins["np.mean"].fn(I, [arr], {}))
    if name == "size":
        return mkint(arr.length)
    if name == "shape":
        return (mkint(arr.length),)
    if name == "tolist":
        def tolist():
            r = arr.copy()
            r.is_list = True
            return list(r.items) if r.items is not None else r
        return mk(tolist)
    if name == "astype":
        return mk(lambda t: arr.copy())
    if name == "index" and arr.is_list and arr.items is not None:
        def index(v):
            for kk, x in enumerate(arr.items):
                if ctx().decide(bterm(I.equal(x, v))):
                    return kk
            raise PyRaise("ValueError", "not in list")
        return mk(index)
    raise Unsupported(f"array method {name}")
