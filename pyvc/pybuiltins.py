"""Python builtins and methods of builtin types for the symbolic executor."""
import math
import z3
from fractions import Fraction
from .core import *
from .core import _isT, _isF
from .values import *


def install(I):
    from .interp import Builtin, ModuleRef, DDict, Obj, ClassRef, Closure, BoundMethod
    B = I.builtins

    def reg(name, f):
        B[name] = Builtin(name, f)

    def b_len(I, a, k):
        v = a[0]
        if isinstance(v, SymArr):
            return mkint(v.length)
        if isinstance(v, (list, tuple, dict, set, frozenset, str)):
            return len(v)
        if hasattr(v, "py_len"):
            return v.py_len(I)
        if isinstance(v, Obj) and v.cls is not None:
            from .interp import NOTFOUND
            f = v.cls.lookup("__len__")
            if f is not NOTFOUND:
                return I.call(BoundMethod(f, v), [], {})
        raise PyRaise("TypeError", f"object of type {type(v).__name__} has no len()")

    reg("len", b_len)

    def concretize(x):
        """a symbolic int that the path condition pins to a single value is read as that value"""
        if not isinstance(x, SInt):
            return x
        c = ctx()
        s = z3.Solver()
        s.set("rlimit", 5000000)      # deterministic budget (construction-time query)
        for h in c.hyps():
            s.add(h)
        if s.check() != z3.sat:
            return x
        v = s.model().eval(x.t, model_completion=True)
        if not z3.is_int_value(v):
            return x
        s.add(x.t != v)
        if s.check() == z3.unsat:
            return v.as_long()
        return x

    I.concretize = concretize

    def b_range(I, a, k):
        a = [concretize(x) for x in a]
        if all(isinstance(x, (int, bool)) or (isinstance(x, XR) and x.is_const()) for x in a):
            return list(range(*[I.conc_int(x) for x in a]))
        a2 = [I.conc_or_sym_int(x) for x in a]
        if len(a2) == 1:
            lo, hi = 0, a2[0]
        elif len(a2) == 2:
            lo, hi = a2
        else:
            raise Unsupported("symbolic range with step")
        n = mkint(iite(icmp(">", isub(hi, lo), 0), isub(hi, lo), 0))
        r = SymArr(n, lambda i: mkint(iadd(lo, i)), "int")
        r.is_list = True
        r.is_range = True
        return r

    reg("range", b_range)

    def conc_or_sym_int(x):
        if isinstance(x, (bool, int)):
            return int(x)
        if isinstance(x, SInt):
            return x
        if isinstance(x, XR):
            # TypeError in Python: 'float' object cannot be interpreted as an integer
            raise PyRaise("TypeError", "'float' object cannot be interpreted as an integer")
        raise Unsupported("range bound " + str(type(x)))

    I.conc_or_sym_int = conc_or_sym_int

    def b_enumerate(I, a, k):
        start = I.conc_int(a[1]) if len(a) > 1 else I.conc_int(k.get("start", 0))
        src = a[0]
        from .heap import SymObjList
        if isinstance(src, SymObjList):
            return ZipView([SymArr(src.length, lambda i: mkint(iadd(i, start)), "int"), src])
        if isinstance(src, SymArr) and src.items is None:
            return ZipView([SymArr(src.length, lambda i: mkint(iadd(i, start)), "int"), src])
        return [(i + start, v) for i, v in enumerate(I.iterate(src))]

    reg("enumerate", b_enumerate)

    def b_zip(I, a, k):
        seqs = [I.iterate(x) for x in a]
        return [tuple(t) for t in zip(*seqs)]

    reg("zip", b_zip)

    def b_isinstance(I, a, k):
        v, t = a
        return isinstance_(I, v, t)

    reg("isinstance", b_isinstance)

    def b_callable(I, a, k):
        return isinstance(a[0], (Closure, BoundMethod, Builtin, ClassRef)) or hasattr(a[0], "py_call")

    reg("callable", b_callable)

    def b_getattr(I, a, k):
        o, name = a[0], a[1]
        try:
            return I.getattr(o, name)
        except PyRaise as e:
            if e.exc_type == "AttributeError" and len(a) > 2:
                return a[2]
            raise

    reg("getattr", b_getattr)
    reg("setattr", lambda I, a, k: I.setattr(a[0], a[1], a[2]))

    def b_hasattr(I, a, k):
        try:
            I.getattr(a[0], a[1])
            return True
        except PyRaise as e:
            if e.exc_type == "AttributeError":
                return False
            raise

    reg("hasattr", b_hasattr)

    def b_bool(I, a, k):
        if not a:
            return False
        return mkbool(I.truth_term(a[0]))

    reg("bool", b_bool)

    def b_int(I, a, k):
        if not a:
            return 0
        v = a[0]
        if isinstance(v, bool):
            return int(v)
        if isinstance(v, (int, SInt)):
            return v
        if isinstance(v, SBool):
            return mkint(iite(v.t, 1, 0))
        if isinstance(v, str):
            try:
                return int(v)
            except ValueError:
                raise PyRaise("ValueError", f"invalid literal for int(): {v!r}")
        if isinstance(v, XR):
            return xr_to_int(v)
        if v is None:
            raise PyRaise("TypeError", "int() argument must be a string or a number, not 'NoneType'")
        if hasattr(v, "py_int"):
            return v.py_int(I)
        raise Unsupported(f"int() of {type(v).__name__}")

    reg("int", b_int)

    def xr_to_int(v):
        """int(float): truncation toward zero; raises on nan/inf"""
        c = ctx()
        if v.int_of is not None:
            return v.int_of
        if v.is_const():
            if v.nan:
                raise PyRaise("ValueError", "cannot convert float NaN to integer")
            if v.pinf or v.ninf:
                raise PyRaise("OverflowError", "cannot convert float infinity to integer")
            return int(v.v)  # Fraction -> int truncates toward zero
        if c.decide(v.nan):
            raise PyRaise("ValueError", "cannot convert float NaN to integer")
        if c.decide(v.inf()):
            raise PyRaise("OverflowError", "cannot convert float infinity to integer")
        t = z3.ToInt(zr(v.v))  # floor
        r = z3.If(zr(v.v) >= 0, t, -z3.ToInt(-zr(v.v)))
        return mkint(r)

    I.xr_to_int = xr_to_int

    def b_float(I, a, k):
        v = a[0]
        if isinstance(v, str):
            return XR.const(float(v))
        if isinstance(v, (bool, int, SInt, SBool, XR, Fraction)):
            r = xr(I.norm_scalar(v))
            return XR(r.v, r.nan, r.pinf, r.ninf, False)
        raise Unsupported(f"float() of {type(v).__name__}")

    reg("float", b_float)

    def b_str(I, a, k):
        if not a:
            return ""
        v = a[0]
        if isinstance(v, (str, int, bool)) or v is None:
            return str(v)
        if isinstance(v, XR) and v.is_const():
            return I.to_str(v)
        if isinstance(v, (list, tuple, dict, set)):
            return "<" + type(v).__name__ + ">"
        if hasattr(v, "py_str"):
            return v.py_str(I)
        if isinstance(v, SInt):
            from .heap import FStr
            return FStr([v])          # decimal numeral of a symbolic integer: injective, so equality is integer equality
        if isinstance(v, (Obj, Closure, BoundMethod, ClassRef)):
            return I.to_str(v)
        raise Unsupported(f"str() of symbolic {type(v).__name__}")

    reg("str", b_str)
    reg("repr", b_str)

    def b_list(I, a, k):
        if not a:
            return []
        v = a[0]
        if isinstance(v, SymArr):
            r = v.copy()
            r.is_list = True
            if r.items is not None:
                return list(r.items)
            return r
        if hasattr(v, "py_list"):
            return v.py_list()
        return list(I.iterate(v))

    reg("list", b_list)
    reg("tuple", lambda I, a, k: tuple(I.iterate(a[0])) if a else ())

    def b_dict(I, a, k):
        d = {}
        if a:
            src = a[0]
            if isinstance(src, dict):
                d.update(src)
            else:
                for kv in I.iterate(src):
                    kk, vv = I.iterate(kv)
                    d[I.concrete_key(kk)] = vv
        d.update(k)
        return d

    reg("dict", b_dict)
    def b_set(I, a, k):
        if not a:
            return set()
        if isinstance(a[0], SymArr) and a[0].items is None:
            from .heap import SymIntSet
            return SymIntSet(a[0])
        return set(I.concrete_key(x) for x in I.iterate(a[0]))

    reg("set", b_set)
    reg("frozenset", lambda I, a, k: frozenset(I.concrete_key(x) for x in I.iterate(a[0])) if a else frozenset())

    def b_sorted(I, a, k):
        from .heap import SymObjList, SortedPerm
        src = a[0]
        if isinstance(src, ZipView) and len(src.arrs) == 2 and isinstance(src.arrs[1], SymObjList):
            # sorted(enumerate(L), key=...) over a symbolic-length record list: contract (permutation ordered by the key)
            return SortedPerm(src.arrs[1], (I, k.get("key"), bool(k.get("reverse", False))), ctx().fresh("sigma"))
        seq = list(I.iterate(a[0]))
        return sort_list(I, seq, k.get("key"), k.get("reverse", False))

    reg("sorted", b_sorted)
    reg("reversed", lambda I, a, k: list(reversed(I.iterate(a[0]))))

    def b_min(I, a, k):
        return minmax(I, a, k, "min")

    def b_max(I, a, k):
        return minmax(I, a, k, "max")

    reg("min", b_min)
    reg("max", b_max)

    def b_sum(I, a, k):
        src = a[0]
        start = a[1] if len(a) > 1 else k.get("start", 0)
        if isinstance(src, SymArr) and src.items is None:
            if src.kind == "bool" and skolem_valid(lambda i: mkbool(bnot(bterm(src.at(i)))), src.length, "nonetrue"):
                return start      # no element is true under the current hypotheses
            f = src.fold("+")
            r = I.binop_add(start, f.at(src.length))
            I.trace.setdefault("sum", []).append((r, src))
            return r
        acc = start
        for v in I.iterate(src):
            acc = I.binop_add(acc, v)
        return acc

    reg("sum", b_sum)

    import ast as _ast
    I.binop_add = lambda x, y: I.binop(_ast.Add(), x, y)

    def b_any(I, a, k):
        src = a[0]
        if isinstance(src, SymArr):
            if src.items is None:
                return arr_any(boolify(I, src))
            src = src.items
        return mkbool(bor(*[I.truth_term(v) for v in I.iterate(src)]))

    def b_all(I, a, k):
        src = a[0]
        if isinstance(src, SymArr):
            if src.items is None:
                return arr_all(boolify(I, src))
            src = src.items
        return mkbool(band(*[I.truth_term(v) for v in I.iterate(src)]))

    reg("any", b_any)
    reg("all", b_all)

    def boolify(I, arr):
        if arr.kind == "bool":
            return arr
        return SymArr(arr.length, lambda i: mkbool(I.truth_term(arr.at(i))), "bool")

    def b_abs(I, a, k):
        v = a[0]
        if isinstance(v, (bool, int)):
            return abs(int(v))
        if isinstance(v, SInt):
            return mkint(z3.If(v.t >= 0, v.t, -v.t))
        if isinstance(v, XR):
            return xabs(v)
        if isinstance(v, SymArr):
            from . import npmodel
            return npmodel.map1(v, lambda x: b_abs(I, [x], {}))
        raise Unsupported("abs")

    reg("abs", b_abs)

    def b_next(I, a, k):
        seq = I.iterate(a[0])
        if not seq:
            if len(a) > 1:
                return a[1]
            raise PyRaise("StopIteration", "")
        return seq[0]

    reg("next", b_next)
    reg("iter", lambda I, a, k: I.iterate(a[0]))

    def b_type(I, a, k):
        v = a[0]
        if isinstance(v, Obj):
            return v.cls
        return TypeTag(pytype_name(v))

    reg("type", b_type)

    def b_round(I, a, k):
        v = a[0]
        if isinstance(v, (int, bool)):
            return int(v)
        if isinstance(v, XR) and v.is_const() and v.fin() is True:
            nd = I.conc_int(a[1]) if len(a) > 1 else None
            r = round(v.v, nd) if nd is not None else round(v.v)
            return XR.const(Fraction(r)) if nd is not None else int(r)
        raise Unsupported("round of symbolic")

    reg("round", b_round)
    reg("id", lambda I, a, k: id(a[0]))
    reg("print", lambda I, a, k: None)
    for t in ("int", "float", "bool", "str", "list", "dict", "tuple", "set"):
        pass
    reg("super", lambda I, a, k: SuperProxy(I))

    # exceptions as values (only used in raise / except)
    for en in ("ValueError", "KeyError", "TypeError", "NotImplementedError", "IndexError", "AssertionError",
               "Exception", "ZeroDivisionError", "AttributeError", "NameError", "RuntimeError", "StopIteration"):
        reg(en, (lambda en: lambda I, a, k: ExcValue(en))(en))
    B["NotImplemented"] = NotImplementedValue()
    B["Ellipsis"] = Ellipsis

    # math
    def m_isinf(I, a, k):
        v = a[0]
        if isinstance(v, (int, SInt, bool)):
            return False
        return mkbool(xr(v).inf())

    B["math.isinf"] = Builtin("math.isinf", m_isinf)
    B["math.isnan"] = Builtin("math.isnan", lambda I, a, k: False if isinstance(a[0], (int, SInt, bool)) else mkbool(xr(a[0]).nan))
    B["math.isfinite"] = Builtin("math.isfinite", lambda I, a, k: True if isinstance(a[0], (int, SInt, bool)) else mkbool(xr(a[0]).fin()))
    B["math.inf"] = XR.const(float("inf"))
    B["math.nan"] = XR.const(float("nan"))
    B["math.pi"] = XR.const(math.pi)

    def m_ceil(I, a, k):
        v = a[0]
        if isinstance(v, (int, SInt, bool)):
            return v
        v = xr(v)
        if v.is_const():
            if v.nan:
                raise PyRaise("ValueError", "cannot convert float NaN to integer")
            if v.pinf or v.ninf:
                raise PyRaise("OverflowError", "cannot convert float infinity to integer")
            return math.ceil(v.v)
        c = ctx()
        if c.decide(v.nan):
            raise PyRaise("ValueError", "cannot convert float NaN to integer")
        if c.decide(v.inf()):
            raise PyRaise("OverflowError", "cannot convert float infinity to integer")
        return mkint(-z3.ToInt(-zr(v.v)))

    def m_floor(I, a, k):
        v = a[0]
        if isinstance(v, (int, SInt, bool)):
            return v
        v = xr(v)
        if v.is_const():
            if v.nan:
                raise PyRaise("ValueError", "cannot convert float NaN to integer")
            if v.pinf or v.ninf:
                raise PyRaise("OverflowError", "cannot convert float infinity to integer")
            return math.floor(v.v)
        c = ctx()
        if c.decide(v.nan):
            raise PyRaise("ValueError", "cannot convert float NaN to integer")
        if c.decide(v.inf()):
            raise PyRaise("OverflowError", "cannot convert float infinity to integer")
        return mkint(z3.ToInt(zr(v.v)))

    B["math.ceil"] = Builtin("math.ceil", m_ceil)
    B["math.floor"] = Builtin("math.floor", m_floor)

    def m_sqrt(I, a, k):
        v = xr(I.norm_scalar(a[0]))
        if ctx().decide(v.neg_()):
            raise PyRaise("ValueError", "math domain error")
        r = xsqrt(v)
        r.npk = False
        return r

    B["math.sqrt"] = Builtin("math.sqrt", m_sqrt)

    # collections
    def b_namedtuple(I, a, k):
        import collections as _c
        cls = _c.namedtuple(a[0], a[1])
        return Builtin("namedtuple:" + a[0], lambda I_, a_, k_: cls(*a_, **k_))

    B["collections.namedtuple"] = Builtin("namedtuple", b_namedtuple)
    B["collections.OrderedDict"] = Builtin("OrderedDict", lambda I, a, k: b_dict(I, a, k))
    B["collections.defaultdict"] = Builtin("defaultdict", lambda I, a, k: DDict(a[0]) if a else DDict(None))
    B["warnings.warn"] = Builtin("warn", lambda I, a, k: None)
    B["sys.stdout"] = None
    B["copy.deepcopy"] = Builtin("deepcopy", lambda I, a, k: deepcopy_val(a[0], {}))
    B["copy.copy"] = Builtin("copy", lambda I, a, k: shallow_copy(a[0]))

    def pd_concat(I, a, k):
        from .heap import SymFrame, pd_concat_one_row
        parts = a[0]
        if len(parts) == 2 and isinstance(parts[0], SymFrame) and isinstance(parts[1], dict) and "__row__" in parts[1]:
            return pd_concat_one_row(I, parts[0], parts[1]["__row__"])
        raise Unsupported("pd.concat shape")

    def pd_dataframe(I, a, k):
        rows = a[0]
        if isinstance(rows, list) and len(rows) == 1 and isinstance(rows[0], dict):
            return {"__row__": rows[0]}
        raise Unsupported("pd.DataFrame(...) shape")

    class FileObj:
        def __init__(self, payload):
            self.payload = payload

    def b_open(I, a, k):
        files = getattr(I, "files", {})
        path = a[0]
        if path not in files:
            raise PyRaise("FileNotFoundError", str(path))
        return FileObj(files[path])

    reg("open", b_open)
    B["json.load"] = Builtin("json.load", lambda I, a, k: a[0].payload)

    class RegexObj:
        def __init__(self, pat):
            import re as _re
            self.rx = _re.compile(pat)

        def py_getattr(self, I, name):
            if name == "search":
                def search(s):
                    if not isinstance(s, str):
                        raise Unsupported("regex search on a symbolic string")
                    m = self.rx.search(s)
                    return None if m is None else MatchObj(m)
                return Builtin("search", lambda I_, a_, k_: search(*a_))
            raise Unsupported("regex." + name)

    class MatchObj:
        def __init__(self, m):
            self.m = m

        def py_getattr(self, I, name):
            if name == "group":
                return Builtin("group", lambda I_, a_, k_: self.m.group(*[I_.conc_int(x) for x in a_]))
            raise Unsupported("match." + name)

    B["re.compile"] = Builtin("re.compile", lambda I, a, k: RegexObj(a[0]))

    for pre in ("pd.", "pandas."):
        B[pre + "concat"] = Builtin("pd.concat", pd_concat)
        B[pre + "DataFrame"] = Builtin("pd.DataFrame", pd_dataframe)
    # type names usable as values (isinstance second arg, dtype=...)
    for tn in ("int", "float", "bool", "str", "list", "dict", "tuple", "set"):
        B[tn].typename = tn


class ExcValue:
    def __init__(self, name):
        self.name = name


class NotImplementedValue:
    def py_call(self, I, args, kwargs):
        raise PyRaise("TypeError", "'NotImplementedType' object is not callable")


class TypeTag:
    def __init__(self, name):
        self.name = name

    def py_eq(self, I, other):
        from .interp import Builtin, ClassRef
        if isinstance(other, TypeTag):
            return self.name == other.name
        if isinstance(other, Builtin):
            return getattr(other, "typename", None) == self.name
        return False


class SuperProxy:
    """zero-argument super() inside a method: attribute lookup starts at the bases of the defining class"""

    def __init__(self, I):
        fn = I.fn_stack[-1]
        env = I.env_stack[-1]
        self.cls = fn.cls
        a = fn.node.args
        params = [p.arg for p in a.posonlyargs + a.args]
        self.obj = env.vars[params[0]] if params else None
        self.I = I

    def py_getattr(self, I, name):
        from .interp import ClassRef, NOTFOUND, BoundMethod, Builtin
        if self.cls is None:
            raise PyRaise("RuntimeError", "super(): no class")
        for b in self.cls.bases:
            if isinstance(b, ClassRef):
                v = b.lookup(name)
                if v is not NOTFOUND:
                    return I.bind(v, self.obj, b)
        if name == "__init__":
            return Builtin("object.__init__", lambda I_, a, k: None)
        raise PyRaise("AttributeError", f"'super' object has no attribute '{name}'")


class ZipView:
    """lazy pairing of symbolic-length arrays (enumerate over a symbolic array)"""

    def __init__(self, arrs):
        self.arrs = arrs
        self.length = arrs[0].length

    def at(self, i):
        return tuple(a.at(i) for a in self.arrs)


def pytype_name(v):
    from .interp import Obj
    if v is None:
        return "NoneType"
    if isinstance(v, (bool, SBool)):
        return "bool"
    if isinstance(v, (int, SInt)):
        return "int"
    if isinstance(v, XR):
        return "float"
    if isinstance(v, str):
        return "str"
    if isinstance(v, list):
        return "list"
    if isinstance(v, tuple):
        return "tuple"
    if isinstance(v, dict):
        return "dict"
    if isinstance(v, (set, frozenset)):
        return "set"
    if isinstance(v, SymArr):
        return "list" if v.is_list else "ndarray"
    return type(v).__name__


def isinstance_(I, v, t):
    from .interp import Builtin, ClassRef, Obj, ModuleRef
    if isinstance(t, tuple):
        return any(isinstance_(I, v, x) for x in t)
    if isinstance(t, Builtin):
        tn = getattr(t, "typename", None)
        if tn is None:
            raise Unsupported(f"isinstance with {t.name}")
        pn = pytype_name(v)
        if tn == "int":
            return pn in ("int", "bool") and not (isinstance(v, XR))
        if tn == "float":
            return pn == "float" and not v.npk if isinstance(v, XR) else False
        return pn == tn
    if isinstance(t, ClassRef):
        if isinstance(v, Obj) and v.cls is not None:
            c = v.cls
            stack = [c]
            while stack:
                x = stack.pop()
                if x is t:
                    return True
                stack.extend(b for b in x.bases if isinstance(b, ClassRef))
        return False
    if isinstance(t, ModuleRef):
        if t.name in ("numpy.ndarray", "np.ndarray"):
            return isinstance(v, SymArr) and not v.is_list
        if t.name.endswith("Collection"):
            return isinstance(v, (list, tuple, dict, set, SymArr))
    raise Unsupported(f"isinstance against {t}")


def shallow_copy(v):
    if isinstance(v, list):
        return list(v)
    if isinstance(v, dict):
        return dict(v)
    if isinstance(v, set):
        return set(v)
    if isinstance(v, SymArr):
        return v.copy()
    return v


def deepcopy_val(v, memo):
    from .interp import Obj
    if id(v) in memo:
        return memo[id(v)]
    if isinstance(v, list):
        r = []
        memo[id(v)] = r
        r.extend(deepcopy_val(x, memo) for x in v)
        return r
    if isinstance(v, dict):
        r = type(v)() if type(v) is dict else dict()
        memo[id(v)] = r
        for k, x in v.items():
            r[k] = deepcopy_val(x, memo)
        return r
    if isinstance(v, tuple):
        return tuple(deepcopy_val(x, memo) for x in v)
    if isinstance(v, set):
        return set(v)
    if isinstance(v, SymArr):
        return v.copy()
    if isinstance(v, Obj):
        r = Obj(v.cls)
        memo[id(v)] = r
        r.attrs = {k: deepcopy_val(x, memo) for k, x in v.attrs.items()}
        return r
    return v


def minmax(I, a, k, which):
    key = k.get("key")
    if len(a) == 1:
        src = a[0]
        if isinstance(src, SymArr) and src.items is None:
            raise Unsupported("builtin min/max over a symbolic-length array")
        seq = list(I.iterate(src))
        if not seq:
            if "default" in k:
                return k["default"]
            raise PyRaise("ValueError", f"{which}() arg is an empty sequence")
    else:
        seq = list(a)
    best = seq[0]
    bk = I.call(key, [best], {}) if key else best
    for v in seq[1:]:
        vk = I.call(key, [v], {}) if key else v
        c = I.scalar_compare("<" if which == "min" else ">", vk, bk)
        if isinstance(c, bool):
            if c:
                best, bk = v, vk
        elif I.is_num(v) and I.is_num(best) and key is None:
            best = vite(c, v, best)
            bk = best
        else:
            if ctx().decide(bterm(c)):
                best, bk = v, vk
    return best


def sort_list(I, seq, key=None, reverse=False):
    """stable sort; symbolic keys are compared through path forks (insertion sort)"""
    reverse = bool(reverse) if isinstance(reverse, bool) else ctx().decide(I.truth_term(reverse))
    keyed = [(I.call(key, [v], {}) if key is not None else v, v) for v in seq]
    out = []
    for kv in keyed:
        pos = len(out)
        # find insertion point from the right to keep stability
        while pos > 0:
            c = I.scalar_compare("<" if not reverse else ">", kv[0], out[pos - 1][0])
            if isinstance(c, bool):
                lt = c
            else:
                lt = ctx().decide(bterm(c))
            if lt:
                pos -= 1
            else:
                break
        out.insert(pos, kv)
    return [v for _, v in out]


# ---------------------------------------------------------------- methods of builtin types

def method(I, o, name):
    from .interp import Builtin, DDict, BoundMethod
    from . import npmodel

    def mk(f):
        return Builtin(name, lambda I_, a, k: f(*a, **k))

    if isinstance(o, SymArr):
        return npmodel.arr_method(I, o, name)
    if isinstance(o, list):
        if name == "append":
            return mk(lambda v: o.append(v))
        if name == "extend":
            return mk(lambda v: o.extend(I.iterate(v)))
        if name == "copy":
            return mk(lambda: list(o))
        if name == "insert":
            return mk(lambda i, v: o.insert(I.conc_int(i), v))
        if name == "pop":
            def pop(i=-1):
                try:
                    return o.pop(I.conc_int(i))
                except IndexError:
                    raise PyRaise("IndexError", "pop from empty list")
            return mk(pop)
        if name == "index":
            def index(v):
                for k, x in enumerate(o):
                    if ctx().decide(bterm(I.equal(x, v))):
                        return k
                raise PyRaise("ValueError", "value is not in list")
            return mk(index)
        if name == "count":
            def count(v):
                acc = 0
                for x in o:
                    acc = mkint(iadd(acc, iite(bterm(I.equal(x, v)), 1, 0)))
                return acc
            return mk(count)
        if name == "remove":
            def remove(v):
                for k, x in enumerate(o):
                    if ctx().decide(bterm(I.equal(x, v))):
                        del o[k]
                        return None
                raise PyRaise("ValueError", "list.remove(x): x not in list")
            return mk(remove)
        if name == "sort":
            def sort(key=None, reverse=False):
                r = sort_list(I, list(o), key, reverse)
                o[:] = r
            return mk(sort)
        if name == "reverse":
            return mk(lambda: o.reverse())
        if name == "clear":
            return mk(lambda: o.clear())
    if isinstance(o, tuple) and name in getattr(type(o), "_fields", ()):
        return getattr(o, name)
    if isinstance(o, tuple):
        if name == "index":
            def tindex(v):
                for k, x in enumerate(o):
                    if ctx().decide(bterm(I.equal(x, v))):
                        return k
                raise PyRaise("ValueError", "tuple.index(x): x not in tuple")
            return mk(tindex)
        if name == "count":
            return mk(lambda v: sum(1 for x in o if I.equal(x, v) is True))
    if isinstance(o, dict):
        if name == "items":
            return mk(lambda: [(k, v) for k, v in o.items()])
        if name == "keys":
            return mk(lambda: DictKeys(o))
        if name == "values":
            return mk(lambda: list(o.values()))
        if name == "get":
            def get(k, d=None):
                kk = I.concrete_key(k)
                return o[kk] if kk in o else d
            return mk(get)
        if name == "update":
            def update(other=None, **kw):
                if other is not None:
                    if isinstance(other, dict):
                        for k2, v2 in other.items():
                            o[k2] = v2
                    else:
                        for kv in I.iterate(other):
                            a_, b_ = I.iterate(kv)
                            o[I.concrete_key(a_)] = b_
                for k2, v2 in kw.items():
                    o[k2] = v2
            return mk(update)
        if name == "copy":
            def dcopy():
                if isinstance(o, DDict):
                    r = DDict(o.factory)
                    r.update(o)
                    return r
                return dict(o)
            return mk(dcopy)
        if name == "pop":
            def dpop(k, *d):
                kk = I.concrete_key(k)
                if kk in o:
                    return o.pop(kk)
                if d:
                    return d[0]
                raise PyRaise("KeyError", repr(kk))
            return mk(dpop)
        if name == "setdefault":
            def setdefault(k, d=None):
                kk = I.concrete_key(k)
                if kk not in o:
                    o[kk] = d
                return o[kk]
            return mk(setdefault)
        if name == "clear":
            return mk(lambda: o.clear())
    if isinstance(o, DictKeys):
        pass
    if isinstance(o, (set, frozenset)):
        if name == "union":
            return mk(lambda *others: set(o).union(*[set(I.concrete_key(x) for x in I.iterate(t)) for t in others]))
        if name == "add":
            return mk(lambda v: o.add(I.concrete_key(v)))
        if name == "update":
            return mk(lambda *others: o.update(*[set(I.concrete_key(x) for x in I.iterate(t)) for t in others]))
        if name == "issubset":
            return mk(lambda other: o.issubset(set(I.concrete_key(x) for x in I.iterate(other))))
        if name == "copy":
            return mk(lambda: set(o))
        if name == "difference":
            return mk(lambda other: set(o).difference(set(I.concrete_key(x) for x in I.iterate(other))))
        if name == "intersection":
            return mk(lambda other: set(o).intersection(set(I.concrete_key(x) for x in I.iterate(other))))
        if name == "discard":
            return mk(lambda v: o.discard(I.concrete_key(v)))
        if name == "remove":
            def sremove(v):
                kk = I.concrete_key(v)
                if kk not in o:
                    raise PyRaise("KeyError", repr(kk))
                o.remove(kk)
            return mk(sremove)
    if isinstance(o, str):
        if name == "split":
            return mk(lambda sep=None, maxsplit=-1: o.split(sep, I.conc_int(maxsplit)))
        if name == "join":
            def join(seq):
                parts = list(I.iterate(seq))
                for p in parts:
                    if not isinstance(p, str):
                        raise PyRaise("TypeError", "sequence item: expected str instance")
                return o.join(parts)
            return mk(join)
        if name == "strip":
            return mk(lambda chars=None: o.strip(chars))
        if name == "format":
            return mk(lambda *a, **k: "<fmt>")
        if name == "replace":
            return mk(lambda a, b: o.replace(a, b))
        if name in ("startswith", "endswith", "lower", "upper", "isdigit", "lstrip", "rstrip"):
            return mk(lambda *a: getattr(o, name)(*a))
        if name == "index":
            def sindex(sub):
                try:
                    return o.index(sub)
                except ValueError:
                    raise PyRaise("ValueError", "substring not found")
            return mk(sindex)
    if isinstance(o, XR):
        if name == "is_integer" and o.is_const():
            return mk(lambda: o.fin() is True and o.v.denominator == 1)
    if hasattr(o, "py_getattr"):
        return o.py_getattr(I, name)
    if isinstance(o, PyRaise) and name == "args":
        return (o.msg,)
    raise PyRaise("AttributeError", f"'{pytype_name(o)}' object has no attribute '{name}'")


class DictKeys:
    def __init__(self, d):
        self.d = d

    def iterate(self):
        return list(self.d.keys())

    def py_contains(self, I, item):
        return I.concrete_key(item) in self.d

    def py_len(self, I):
        return len(self.d)
