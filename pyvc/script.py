"""Proof-script API.  A script states the contract of one repository function (or a lemma over contracts) once and
is run in three modes:
  proof   : symbolic lengths, ghost folds, induction -> unbounded obligations (the deciding step)
  refute  : the same script with small concrete lengths (quantifier-free, recurrences unfolded) -> concrete
            counter-models for obligations that failed in proof mode
  replay  : inputs pinned to concrete values, the function result taken from a native CPython run of the real code,
            goals evaluated with a floating-point tolerance -> confirms a counter-model on the real code
"""
import json
import math
import z3
from fractions import Fraction
from .core import *
from .values import *
from .vc import Session, explore, Result
from . import spec as _spec

TOL = Fraction(1, 10 ** 9)


class Script(Session):
    def __init__(self, label, mode="proof", sizes=None, pinned=None, native=None):
        super().__init__(label)
        self.mode = mode
        self.sizes = sizes if sizes is not None else {}
        self.pinned = pinned or {}
        self.native = native
        self.native_out = native
        self.native_desc = None
        self.inputs = {}
        self.input_order = []
        self.known_ids = []
        self.notes = []
        self.replay_verdicts = []

    # -- inputs ---------------------------------------------------------
    def _rec(self, name, v):
        if name not in self.inputs:
            self.input_order.append(name)
        self.inputs[name] = v
        return v

    def length(self, name, lo=1, hi=None):
        c = ctx()
        self.used_length = True
        if self.mode == "replay":
            return self._rec(name, int(self.pinned[name]))
        if self.mode == "refute":
            try:
                v = self.sizes[name]
            except KeyError:
                v = None
            if v is None:
                raise VerifError(f"no concrete size for {name}")
            if v < lo or (hi is not None and not isinstance(hi, (z3.ExprRef, SInt)) and v > hi):
                raise PathInfeasible()
            return self._rec(name, v)
        n = z3.Int(name)
        c.assume(n >= lo)
        if hi is not None:
            c.assume(n <= zi(hi))
        return self._rec(name, n)

    def integer(self, name, lo=None, hi=None):
        c = ctx()
        if self.mode == "replay":
            return self._rec(name, int(self.pinned[name]))
        v = z3.Int(name)
        if lo is not None:
            c.assume(v >= zi(lo))
        if hi is not None:
            c.assume(v <= zi(hi))
        self._rec(name, v)
        return SInt(v)

    def real(self, name, lo=None, hi=None, lo_strict=None, hi_strict=None, npk=False):
        c = ctx()
        if self.mode == "replay":
            v = XR.const(pin_to_num(self.pinned[name]), npk=npk)
            return self._rec(name, v)
        v = XR.finvar(name, npk=npk)
        if lo is not None:
            c.assume(xcmp(">=", v, lo))
        if hi is not None:
            c.assume(xcmp("<=", v, hi))
        if lo_strict is not None:
            c.assume(xcmp(">", v, lo_strict))
        if hi_strict is not None:
            c.assume(xcmp("<", v, hi_strict))
        return self._rec(name, v)

    def choose(self, name, options):
        """a symbolic choice among concrete options (forks one path per option)"""
        if self.mode == "replay":
            return self._rec(name, self.pinned[name])
        c = ctx()
        k = z3.Int(name)
        self._rec(name, k)
        c.assume(z3.And(k >= 0, k < len(options)))
        for i, o in enumerate(options[:-1]):
            if c.decide(k == i):
                return o
        return options[-1]

    def boolean(self, name):
        if self.mode == "replay":
            return self._rec(name, bool(self.pinned[name]))
        b = z3.Bool(name)
        self._rec(name, b)
        return SBool(b)

    def array(self, name, n, lo=None, hi=None, general=False, npk=True):
        if self.mode == "replay":
            items = [XR.const(pin_to_num(v), npk=npk) for v in self.pinned[name]]
            return self._rec(name, SymArr(len(items), kind="xr", items=items, name=name))
        n = n if isinstance(n, int) else idx_term(n)
        a = _spec.in_array(name, n, lo, hi, npk=npk, general=general)
        return self._rec(name, a)

    # -- goals ------------------------------------------------------------
    def structural_failure(self, name):
        """the executed code does not have the shape the contract talks about (e.g. two running products, an exception):
        a failed obligation unless the path is infeasible"""
        import time as _t
        c = ctx()
        t0 = _t.time()
        s = z3.Solver()
        s.set("timeout", 20000)
        for h in c.hyps():
            s.add(h)
        r = s.check()
        full = f"{self.label}/{name}/path{self.paths}"
        if r == z3.unsat:
            res = Result(full, "proved", "z3(infeasible path)", _t.time() - t0)
        else:
            res = Result(full, "failed", "structural", _t.time() - t0, model=s.model() if r == z3.sat else None,
                         detail="code shape differs from the contract's")
        self.results.append(res)
        return res

    def undecided(self, name, detail="a prerequisite lemma was not discharged"):
        """a clause that cannot be decided because something it depends on is undecided (never a violation)"""
        full = f"{self.label}/{name}/path{self.paths}"
        res = Result(full, "unknown", "-", 0.0, detail=detail)
        self.results.append(res)
        return res

    def holds(self, name, goal, extra=()):
        if goal is False and self.mode != "replay" and not extra:
            return self.structural_failure(name)
        if self.mode == "replay":
            return self._replay_goal(name, goal, extra)
        return self.prove(name, goal, extra=extra)

    def eq(self, name, a, b, extra=()):
        """extended-real identity (NaN = NaN); in replay mode with relative tolerance"""
        if self.mode == "replay":
            return self._replay_goal(name, xclose(a, b), extra)
        return self.prove(name, xsame(a, b), extra=extra)

    def le(self, name, a, b, extra=()):
        if self.mode == "replay":
            return self._replay_goal(name, bor(xcmp("<=", a, b), xclose(a, b)), extra)
        return self.prove(name, xcmp("<=", a, b), extra=extra)

    def _replay_goal(self, name, goal, extra):
        c = ctx()
        instantiate_universals(c)
        s = z3.Solver()
        s.set("timeout", 20000)
        for h in c.hyps() + [zb(e) for e in extra]:
            s.add(h)
        # hypotheses are concrete; a violated hypothesis means the input is outside the precondition
        if s.check() == z3.unsat:
            self.replay_verdicts.append((name, "outside-precondition"))
            return None
        s.add(z3.Not(zb(bterm(goal) if isinstance(goal, SBool) else goal)))
        r = s.check()
        v = "violated" if r == z3.sat else ("holds" if r == z3.unsat else "unknown")
        self.replay_verdicts.append((name, v))
        return v

    def expected_fail(self, kid, name, props=None):
        """clause inside a recorded known finding with no claim outside it in this script variant: no proof is attempted;
        the check driver replays the recorded witness on the real code and reports KNOWN-FINDING (or a VIOLATION if the
        finding is not on file)"""
        full = f"{self.label}/{name}/path{self.paths}"
        res = Result(full, "failed", "known-finding(no proof attempted)", 0.0, detail="expected to fail: " + kid)
        res.known_id = kid
        res.props = props
        self.results.append(res)
        return res

    def known(self, kid, name, goal, carve=None, props=None):
        """clause covered by a recorded known finding `kid`: the clause must hold OUTSIDE the carve-out (proved here,
        unless the carve-out is the whole regime of this script variant: carve=None);
        inside it the recorded witness is replayed natively by the check driver."""
        r = None
        if carve is not None:
            r = self.holds(name + " [outside carve-out " + kid + "]", bor(carve, goal))
        full = self.holds(name, goal)
        if full is not None and hasattr(full, "status"):
            full.known_id = kid
            full.props = props
        if r is not None and hasattr(r, "status"):
            r.props = props
        return r

    # -- model -> concrete input ----------------------------------------------
    def dump_inputs(self, model):
        out = {}
        for name in self.input_order:
            v = self.inputs[name]
            out[name] = dump_val(model, v)
        return out


def xclose(a, b):
    a, b = xr(a), xr(b)
    diff = xabs(xsub(a, b))
    scale = xadd(XR.const(1), xadd(xabs(a), xabs(b)))
    fin2 = band(a.fin(), b.fin())
    return bor(band(fin2, rcmp("<=", diff.v, rmul(TOL, scale.v))), band(a.nan, b.nan), band(a.pinf, b.pinf), band(a.ninf, b.ninf))


def pin_to_num(v):
    if isinstance(v, str):
        if v in ("nan", "NaN"):
            return float("nan")
        if v in ("inf", "+inf", "Infinity"):
            return float("inf")
        if v in ("-inf", "-Infinity"):
            return float("-inf")
        if "/" in v:
            return Fraction(v)
        return Fraction(v)
    if isinstance(v, bool):
        return int(v)
    if isinstance(v, int):
        return v
    if isinstance(v, float):
        if v != v or v in (float("inf"), float("-inf")):
            return v
        return Fraction(v)
    return v


def dump_val(model, v):
    if isinstance(v, bool) or isinstance(v, int):
        return v
    if isinstance(v, z3.ExprRef):
        r = model.eval(v, model_completion=True)
        if z3.is_int_value(r):
            return r.as_long()
        if z3.is_true(r):
            return True
        if z3.is_false(r):
            return False
        return str(num_to_fraction(model, v))
    if isinstance(v, SInt):
        return dump_val(model, v.t)
    if isinstance(v, SBool):
        return dump_val(model, v.t)
    if isinstance(v, XR):
        f = model_eval_xr(model, v)
        if isinstance(f, float):
            return "nan" if f != f else ("inf" if f > 0 else "-inf")
        return str(f)
    if isinstance(v, SymArr):
        if v.items is None:
            return "<symbolic array>"
        return [dump_val(model, x) for x in v.items]
    if isinstance(v, (list, tuple)):
        return [dump_val(model, x) for x in v]
    if isinstance(v, dict):
        return {str(k): dump_val(model, x) for k, x in v.items()}
    from .heap import OptDict, Mark
    from .interp import Obj
    if isinstance(v, OptDict):
        out = {}
        for k in v.keys:
            p = dump_val(model, v.pres[k]) if not isinstance(v.pres[k], bool) else v.pres[k]
            if p:
                out[str(k)] = dump_val(model, v.vals[k])
        return out
    if isinstance(v, Mark):
        return dump_val(model, v.truth)
    if isinstance(v, Obj):
        return {k: dump_val(model, x) for k, x in v.attrs.items()
                if isinstance(x, (bool, int, str, SInt, SBool, XR, OptDict, dict, list)) or x is None}
    if v is None:
        return None
    return str(v)
