"""helpers for writing contracts / proof scripts"""
import z3
from fractions import Fraction
from .core import *
from .values import *


def in_array(name, n, lo=None, hi=None, npk=True, general=False):
    """symbolic input array of length n (z3 Int or python int): elements finite reals in [lo,hi] (facts added on access);
    general=True: arbitrary extended reals."""
    c = ctx()
    if isinstance(n, int):
        items = []
        for k in range(n):
            e = XR.var(f"{name}[{k}]", npk=npk) if general else XR.finvar(f"{name}[{k}]", npk=npk)
            if not general:
                if lo is not None:
                    c.assume(xcmp(">=", e, lo))
                if hi is not None:
                    c.assume(xcmp("<=", e, hi))
            items.append(e)
        return SymArr(n, kind="xr", items=items, name=name)
    fv = z3.Function(name, z3.IntSort(), z3.RealSort())
    if general:
        fn_ = z3.Function(name + ".nan", z3.IntSort(), z3.BoolSort())
        fp_ = z3.Function(name + ".pinf", z3.IntSort(), z3.BoolSort())
        fm_ = z3.Function(name + ".ninf", z3.IntSort(), z3.BoolSort())
    seen = set()

    def elem(i):
        i = zi(i)
        if general:
            e = XR(fv(i), fn_(i), fp_(i), fm_(i), npk=npk)
        else:
            e = XR(fv(i), npk=npk)
        h = tid(i)
        if h not in seen:
            seen.add(h)
            cc = ctx()
            if general:
                cc.assume(e.wf())
            else:
                if lo is not None:
                    cc.assume(xcmp(">=", e, lo))
                if hi is not None:
                    cc.assume(xcmp("<=", e, hi))
        return e

    return SymArr(n, elem, "xr", name=name)


def arr_eq_at(a, b, i):
    return xsame(a.at(i), b.at(i))


def skolem(name, n):
    """fresh index 0 <= j < n (as a path fact)"""
    c = ctx()
    j = z3.Int(c.fresh(name))
    c.assume(z3.And(j >= 0, j < zi(n)))
    c.index_terms_add(j)
    if not hasattr(c, "skolems"):
        c.skolems = {}
    c.skolems[tid(j)] = j
    return j
