"""Arrays as (length, index -> value) closures, ghost folds (running sums / products), quantified booleans."""
import z3
from fractions import Fraction
from .core import *


def idx_term(i):
    """index -> python int or z3 Int term"""
    if isinstance(i, SInt):
        return i.t
    if isinstance(i, bool):
        return int(i)
    if isinstance(i, XR):
        if i.is_const() and i.v.denominator == 1:
            return int(i.v)
        raise Unsupported("float index")
    if isinstance(i, z3.ExprRef):
        return z3.simplify(i)       # canonical index terms: k - 1, k + -1 and -1 + k are the same term
    return i


def is_conc(n):
    return isinstance(n, int)


class SymArr:
    """numpy array / list of scalars.  kind in {'xr','int','bool','obj'}.
    Concrete arrays have python-int length and an items list; symbolic ones an element closure."""

    def __init__(self, length, elem=None, kind="xr", items=None, name=None):
        self.length = idx_term(length) if not isinstance(length, int) else length
        self.kind = kind
        self.items = list(items) if items is not None else None
        self._elem = elem
        self.ghost = {}
        self.name = name
        self.is_list = False  # python list (True) or ndarray (False): affects '+' and '*'
        if self.items is not None:
            self.length = len(self.items)

    # -- access -------------------------------------------------------
    def conc(self):
        return self.items is not None

    def at(self, i):
        i = idx_term(i)
        if self.items is not None:
            n = len(self.items)
            if isinstance(i, int):
                if i < -n or i >= n:
                    raise PyRaise("IndexError", f"index {i} out of range {n}")
                return self.items[i]
            # symbolic index into concrete array: ite chain
            c = ctx()
            if c is not None:
                c.index_terms_add(i)
            r = self.items[n - 1] if n else None
            if n == 0:
                raise PyRaise("IndexError", "index into empty array")
            for k in range(n - 2, -1, -1):
                r = vite(i == k, self.items[k], r)
            return r
        c = ctx()
        if c is not None and not isinstance(i, int):
            c.index_terms_add(i)
        it = i if not isinstance(i, int) else z3.IntVal(i)
        memo = self.__dict__.setdefault("_memo", {})
        h = (tid(it), id(self._elem), EPOCH[0])
        if h not in memo:
            memo[h] = self._elem(it)
        return memo[h]

    def at_checked(self, i):
        """Python/numpy indexing with negative indices and bounds obligations"""
        i = idx_term(i)
        n = self.length
        if isinstance(i, int) and isinstance(n, int):
            if i < -n or i >= n:
                raise PyRaise("IndexError", f"index {i} out of bounds for size {n}")
            return self.at(i if i >= 0 else n + i)
        c = ctx()
        if isinstance(i, int):
            if i < 0:
                ok = icmp(">=", n, -i)
                if not c.decide(ok):
                    raise PyRaise("IndexError", f"index {i} out of bounds")
                return self.at(iadd(n, i))
            ok = icmp(">", n, i)
            if not c.decide(ok):
                raise PyRaise("IndexError", f"index {i} out of bounds")
            return self.at(i)
        neg = icmp("<", i, 0)
        if c.decide(neg):
            ok = icmp(">=", iadd(n, i), 0)
            if not c.decide(ok):
                raise PyRaise("IndexError", "index out of bounds")
            return self.at(iadd(n, i))
        ok = icmp("<", i, n)
        if not c.decide(ok):
            raise PyRaise("IndexError", "index out of bounds")
        return self.at(i)

    def copy(self):
        if self.items is not None:
            r = SymArr(len(self.items), kind=self.kind, items=list(self.items))
        else:
            r = SymArr(self.length, self._elem, self.kind)
            r.ghost = self.ghost  # shared until mutated
            r.prefix_of = getattr(self, "prefix_of", None)
        r.is_list = self.is_list
        r.name = self.name
        if hasattr(self, "member"):
            r.member = self.member
        if hasattr(self, "elem_range"):
            r.elem_range = self.elem_range
        if self.items is None and getattr(self, "fold_alias", None) is not None:
            r.fold_alias = self.fold_alias
        return r

    # -- mutation -----------------------------------------------------
    def set_where(self, cond_fn, val_fn):
        """a[i] = val_fn(i) for every i with cond_fn(i) (cond -> bool|z3 Bool)"""
        if self.items is not None:
            for k in range(len(self.items)):
                cnd = cond_fn(k)
                self.items[k] = vite(cnd, val_fn(k), self.items[k])
            return
        old = self._elem
        self._elem = lambda i: vite(cond_fn(i), val_fn(i), old(i))
        self.ghost = {}
        self.prefix_of = None
        self.fold_alias = None

    def set_at(self, idx, val):
        idx = idx_term(idx)
        n = self.length
        if self.items is not None and isinstance(idx, int):
            if idx < -len(self.items) or idx >= len(self.items):
                raise PyRaise("IndexError", f"index {idx} out of bounds for size {len(self.items)}")
            self.items[idx] = val
            return
        c = ctx()
        if isinstance(idx, int) and idx < 0:
            ok = icmp(">=", n, -idx)
            if not c.decide(ok):
                raise PyRaise("IndexError", "assignment index out of bounds")
            idx = iadd(n, idx)
        else:
            ok = band(icmp(">=", idx, 0), icmp("<", idx, n))
            if not c.decide(ok):
                raise PyRaise("IndexError", "assignment index out of bounds")
        self.set_where(lambda i, idx=idx: icmp("==", i, idx), lambda i: val)

    def append(self, val):
        if self.items is not None:
            self.items.append(val)
            self.length = len(self.items)
            return
        old = self._elem
        n = self.length
        self._elem = lambda i: vite(icmp("==", i, n), val, old(i))
        self.length = iadd(n, 1)
        self.ghost = {}
        self.prefix_of = None

    # -- ghosts -------------------------------------------------------
    def fold(self, op):
        par = getattr(self, "prefix_of", None)
        if par is not None:
            return par.fold(op)
        key = "fold" + op
        if key not in self.ghost:
            g = GhostFold(self, op)
            fa = getattr(self, "fold_alias", None)
            if fa is not None and fa[0].items is None:
                g.alias_to = (fa[0].fold(op), fa[1])
            self.ghost[key] = g
        return self.ghost[key]

    def __repr__(self):
        if self.items is not None:
            return f"SymArr({self.items})"
        return f"SymArr(len={self.length}, kind={self.kind})"


ALIAS_ON = [True]
EPOCH = [0]     # bumped when a proved lemma installs a fold alias: element memos are re-evaluated afterwards


def set_alias(fold, parent, lim):
    fold.alias_to = (parent, lim)
    EPOCH[0] += 1


def vite(c, a, b):
    """if-then-else over interpreter scalars"""
    if isinstance(c, SBool):
        c = c.t
    if _isT(c):
        return a
    if _isF(c):
        return b
    if isinstance(a, XR) or isinstance(b, XR):
        return xite(c, xr(a), xr(b))
    if isinstance(a, (bool, SBool)) and isinstance(b, (bool, SBool)):
        return mkbool(bite(c, bterm(a), bterm(b)))
    if isinstance(a, (int, SInt)) and isinstance(b, (int, SInt)):
        return mkint(iite(c, a, b))
    if a is b:
        return a
    if isinstance(a, (Fraction,)) or isinstance(b, Fraction):
        return xite(c, xr(a), xr(b))
    if type(a).__name__ == "SymStr" and type(b).__name__ == "SymStr":
        return type(a)(z3.If(c, zi(a.t), zi(b.t)))
    raise Unsupported(f"ite over {type(a)} / {type(b)}")


from .core import _isT, _isF  # noqa


def fold_ite(c, a, b):
    """ite whose condition is first resolved against the current hypotheses (cheap linear query)"""
    if isinstance(c, SBool):
        c = c.t
    if isinstance(c, bool):
        return a if c else b
    cx = ctx()
    if cx is not None:
        if cx.known_true(c):
            return a
        if cx.known_false(c):
            return b
    return vite(c, a, b)


def _index_terms_add(self, t):
    if not hasattr(self, "index_terms"):
        self.index_terms = {}
    if isinstance(t, int):
        return
    self.index_terms[tid(t)] = t


Ctx.index_terms_add = _index_terms_add


# ---------------------------------------------------------------- ghost folds

class GhostFold:
    """F(k) = a(0) op ... op a(k-1), F(0) = identity.  For symbolic arrays F is an uninterpreted function whose
    one-step unfolding is instantiated at every index it is evaluated at (no quantifier reaches the solver)."""

    def __init__(self, arr, op):
        arr = arr.copy()      # freeze the element closure: later in-place mutation creates a new fold
        self.arr = arr
        self.op = op
        # "max0": running maximum started at 0 (numpy semantics: NaN propagates), as in `m = 0; for ..: m = np.max([m, a])`
        # "min1": running minimum started at 1 (p = min(1, history entries))
        self.ident = Fraction(0) if op in ("+", "max0") else Fraction(1)
        c = ctx()
        self.name = c.fresh({"+": "PS", "*": "PP", "max0": "PM", "min1": "PN"}[op])
        self.seen = {}
        self.conc_cache = None
        if arr.items is None:
            probe = arr.at(z3.Int(c.fresh("probe")))
            self.intkind = isinstance(probe, (int, SInt, bool, SBool))
            if self.intkind:
                self.fv = z3.Function(self.name, z3.IntSort(), z3.IntSort())
                self.finite = True
            else:
                probe = xr(probe)
                self.finite = all(isinstance(f, bool) and not f for f in (probe.nan, probe.pinf, probe.ninf))
                self.fv = z3.Function(self.name, z3.IntSort(), z3.RealSort())
                if not self.finite:
                    self.fnan = z3.Function(self.name + ".nan", z3.IntSort(), z3.BoolSort())
                    self.fpinf = z3.Function(self.name + ".pinf", z3.IntSort(), z3.BoolSort())
                    self.fninf = z3.Function(self.name + ".ninf", z3.IntSort(), z3.BoolSort())

    def raw(self, k):
        k = zi(k)
        if self.intkind:
            return mkint(self.fv(k))
        if self.finite:
            return XR(self.fv(k), npk=True)
        return XR(self.fv(k), self.fnan(k), self.fpinf(k), self.fninf(k), npk=True)

    def _apply(self, acc, a):
        if self.intkind:
            a = a if not isinstance(a, (bool, SBool)) else mkint(iite(bterm(a), 1, 0))
            if self.op == "max0":
                return mkint(iite(icmp(">", a, acc), iterm(a), iterm(acc)))
            return mkint(iadd(acc, a)) if self.op == "+" else mkint(imul(acc, a))
        if self.op == "max0":
            r = xmaximum(xr(acc), xr(a))
        elif self.op == "min1":
            r = xminimum(xr(acc), xr(a))
        else:
            r = xadd(acc, a) if self.op == "+" else xmul(acc, a)
        r.npk = True
        return r

    def at(self, k):
        """fold over the first k elements"""
        k = idx_term(k)
        al = getattr(self, "alias_to", None)
        if al is not None and not isinstance(k, int) and ALIAS_ON[0]:
            parent, lim = al
            c = ctx()
            if c is not None and c.known_true(zb(band(icmp(">=", k, 0), icmp("<=", k, lim)))):
                return parent.at(k)    # justified by a proved lemma: the two folds agree on [0, lim]
        arr = self.arr
        if arr.items is not None:
            if not isinstance(k, int):
                raise Unsupported("symbolic prefix of a concrete array")
            if self.conc_cache is None or len(self.conc_cache) != len(arr.items) + 1:
                acc = xr(self.ident)
                acc.npk = True
                first = arr.items[0] if arr.items else None
                if isinstance(first, (int, SInt, bool, SBool)):
                    acc = int(self.ident)
                    self.intkind = True
                else:
                    self.intkind = False
                cache = [acc]
                for it in arr.items:
                    acc = self._apply(acc, it)
                    cache.append(acc)
                self.conc_cache = cache
            return self.conc_cache[k]
        if isinstance(k, int):
            if k == 0:
                return int(self.ident) if self.intkind else XR(self.ident, npk=True)
            k = z3.IntVal(k)
        h = tid(k)
        if h not in self.seen:
            self.seen[h] = k
            c = ctx()
            c.index_terms_add(k)
            cur = self.raw(k)
            prev = self.raw(k - 1)
            al2 = getattr(self, "alias_to", None)
            if al2 is not None and ALIAS_ON[0]:
                km1 = z3.simplify(k - 1)
                if c.known_true(zb(band(icmp(">=", km1, 0), icmp("<=", km1, al2[1])))):
                    prev = al2[0].at(km1)      # the prefix below the alias limit is the parent's fold
            step = self._apply(prev, arr.at(z3.simplify(k - 1)))
            zero = self.raw(0)
            if self.intkind:
                c.assume(zi(iterm(zero)) == int(self.ident))
                c.assume(z3.Implies(k >= 1, zi(iterm(cur)) == zi(iterm(step))))
            else:
                c.assume(zb(xsame(zero, XR(self.ident))))
                c.assume(z3.Implies(k >= 1, zb(xsame(cur, step))))
        return self.raw(k)


# ---------------------------------------------------------------- quantified booleans over arrays

def skolem_valid(pred, n, what):
    """is  forall 0<=i<n. pred(i)  valid under the current hypotheses?  (Skolem index, solver call)"""
    c = ctx()
    i = z3.Int(c.fresh("sk_" + what))
    p = pred(i)
    if isinstance(p, SBool):
        p = p.t
    if _isT(p):
        return True
    # construction-time query: a deterministic resource limit (not wall-clock), nonlinear terms abstracted, so that the shape
    # of the generated obligations does not depend on machine speed
    s = z3.Solver()
    s.set("rlimit", 2000000)
    for h in abstract_nl(c.hyps() + [i >= 0, i < zi(n), z3.Not(zb(p))], c.__dict__.setdefault("_absmemo_prove", {})):
        s.add(h)
    c.stats["feas_checks"] += 1
    return s.check() == z3.unsat


def reg_witness(c, w):
    """witness indices take part in the instantiation of registered universal facts"""
    if not hasattr(c, "skolems"):
        c.skolems = {}
    c.skolems[tid(w)] = w


def arr_all(arr):
    """builtin all()/np.all over a bool array -> bool|SBool"""
    if arr.items is not None:
        return mkbool(band(*[bterm(b) for b in arr.items]))
    c = ctx()
    n = arr.length
    if skolem_valid(lambda i: arr.at(i), n, "all"):
        return True
    if skolem_valid(lambda i: mkbool(bnot(bterm(arr.at(i)))), n, "none"):
        # every element false: all() is True only for the empty array
        return mkbool(icmp("==", n, 0))
    # symbolic: A <-> forall i. b(i);  ~A -> witness
    A = z3.Bool(c.fresh("all"))
    w = z3.Int(c.fresh("w_all"))
    reg_witness(c, w)
    c.assume(z3.Implies(z3.Not(A), z3.And(w >= 0, w < zi(n), z3.Not(zb(bterm(arr.at(w)))))))
    c.universals.append((A, lambda i: bterm(arr.at(i)), n))
    return SBool(A)


def arr_any(arr):
    if arr.items is not None:
        return mkbool(bor(*[bterm(b) for b in arr.items]))
    c = ctx()
    n = arr.length
    if skolem_valid(lambda i: mkbool(bnot(bterm(arr.at(i)))), n, "none"):
        return False
    A = z3.Bool(c.fresh("any"))
    w = z3.Int(c.fresh("w_any"))
    reg_witness(c, w)
    c.assume(z3.Implies(A, z3.And(w >= 0, w < zi(n), zb(bterm(arr.at(w))))))
    c.universals.append((z3.Not(A), lambda i: bnot(bterm(arr.at(i))), n))
    return SBool(A)


class ArrAgg:
    """result of np.max / np.min over a symbolic array: value + instantiation hook for the forall-part"""

    def __init__(self, val, inst):
        self.val = val
        self.inst = inst


def arr_extreme(arr, which):
    """np.max / np.min (NaN-propagating) of an xr array. Returns XR with attribute .agg for instantiation."""
    npf = xmaximum if which == "max" else xminimum
    if arr.items is not None:
        if not arr.items:
            raise PyRaise("ValueError", "zero-size array to reduction operation")
        acc = xr(arr.items[0])
        for it in arr.items[1:]:
            acc = npf(acc, xr(it))
        acc.npk = True
        return acc
    c = ctx()
    n = arr.length
    M = XR.var(c.fresh("amax" if which == "max" else "amin"), npk=True)
    w = z3.Int(c.fresh("w_ext"))
    wn = z3.Int(c.fresh("w_nan"))
    # empty array raises
    if c.decide(icmp("<=", n, 0)):
        raise PyRaise("ValueError", "zero-size array to reduction operation")
    c.assume(z3.And(w >= 0, w < zi(n), wn >= 0, wn < zi(n)))
    c.assume(bimp(M.nan, xr(arr.at(wn)).nan))
    c.assume(bimp(bnot(M.nan), xsame(M, arr.at(w))))
    op = ">=" if which == "max" else "<="

    def inst(i):
        e = xr(arr.at(i))
        c2 = ctx()
        c2.assume(bimp(band(icmp(">=", i, 0), icmp("<", i, n)),
                       band(bimp(e.nan, M.nan), bimp(bnot(M.nan), xcmp(op, M, e)))))

    c.universals.append((True, None, n, inst))
    c.trace.append(("extreme", which, M, w, wn, arr))
    M_ = M
    M_agg[id(M_)] = inst
    return M_


M_agg = {}


def _universals(self):
    if not hasattr(self, "_univ"):
        self._univ = []
    return self._univ


Ctx.universals = property(_universals)


def instantiate_universals(c, extra_terms=()):
    """instantiate registered universal facts at every index term seen so far (finite, quantifier-free)"""
    terms = list(getattr(c, "skolems", {}).values()) + list(extra_terms)
    done = getattr(c, "_univ_done", set())
    for u in list(c.universals):
        for t in terms:
            key = (id(u), tid(t) if not isinstance(t, int) else t)
            if key in done:
                continue
            done.add(key)
            if len(u) == 4:
                u[3](t)
            else:
                guard, pred, n = u
                c.assume(bimp(band(guard, icmp(">=", t, 0), icmp("<", t, n)), pred(t)))
    c._univ_done = done
