"""Obligations: path exploration, discharge with z3 (cvc5 on z3's unknown), induction lemmas, results."""
import time
import subprocess
import tempfile
import os
import z3
from .core import *
from .values import instantiate_universals

Z3_TIMEOUT_MS = int(os.environ.get("PYVC_Z3_TIMEOUT_MS", "120000"))
CVC5_TIMEOUT_S = int(os.environ.get("PYVC_CVC5_TIMEOUT_S", "60"))


from .core import abstract_nl


class Result:
    def __init__(self, name, status, backend, secs, model=None, detail="", smt=None):
        self.name = name
        self.status = status      # proved | failed | unknown | error
        self.backend = backend
        self.secs = secs
        self.model = model
        self.detail = detail
        self.smt = smt

    def as_dict(self):
        return {"name": self.name, "status": self.status, "backend": self.backend, "secs": round(self.secs, 4),
                "detail": self.detail}


class Session:
    """collects obligations of one proof script (possibly many paths)"""

    def __init__(self, label):
        self.label = label
        self.results = []
        self.paths = 0
        self.path_ends = {}
        self.vacuity = []
        self.keep_smt = 3
        self.unsupported = []
        self.both = os.environ.get("VERIF_TIER", "quick") == "thorough"

    # -- discharge ----------------------------------------------------
    def prove(self, name, goal, extra=(), c=None, timeout_ms=None):
        c = c or ctx()
        instantiate_universals(c)
        goal = zb(bterm(goal) if isinstance(goal, SBool) else goal)
        hyps = c.hyps() + [zb(e) for e in extra]
        full = f"{self.label}/{name}/path{self.paths}"
        t0 = time.time()
        # 1. nonlinear terms abstracted to uninterpreted functions: decides most obligations by congruence
        try:
            ab = abstract_nl(hyps + [z3.Not(goal)], c.__dict__.setdefault("_absmemo_prove", {}))
            sa = z3.Solver()
            sa.set("timeout", 15000)
            for h in ab:
                sa.add(h)
            if sa.check() == z3.unsat:
                res = Result(full, "proved", "z3(nl-abstracted)", time.time() - t0)
                if self.both:
                    # thorough tier: the second back end must not contradict the same (abstracted) query
                    r2 = self.cvc5_check(sa)
                    if r2 == "sat":
                        res = Result(full, "unknown", "z3+cvc5", time.time() - t0, detail="z3 unsat but cvc5 sat on the abstracted query")
                    elif r2 == "unsat":
                        res.backend = "z3+cvc5(nl-abstracted)"
                self.results.append(res)
                return res
        except z3.Z3Exception:
            pass
        s = z3.Solver()
        s.set("timeout", timeout_ms or Z3_TIMEOUT_MS)
        for h in hyps:
            s.add(h)
        s.add(z3.Not(goal))
        r = s.check()
        secs = time.time() - t0
        smt = None
        if len([x for x in self.results if x.smt]) < self.keep_smt:
            try:
                smt = s.to_smt2()[:4000]
            except Exception:
                smt = None
        if r == z3.unsat:
            res = Result(full, "proved", "z3", secs, smt=smt)
            if self.both:
                r2 = self.cvc5_check(s)
                if r2 == "sat":
                    res = Result(full, "unknown", "z3+cvc5", secs, detail="z3 unsat but cvc5 sat: back ends disagree")
                elif r2 == "unsat":
                    res.backend = "z3+cvc5"
        elif r == z3.sat:
            res = Result(full, "failed", "z3", secs, model=s.model(), smt=smt)
            if os.environ.get("PYVC_DEBUG"):
                m = s.model()
                print("DEBUG failure", full)
                gs = goal.children() if z3.is_and(goal) else [goal]
                for cj in gs:
                    print("   conjunct", str(z3.simplify(m.eval(cj, model_completion=True))), "::", str(z3.simplify(cj))[:1500])
        else:
            r2 = self.cvc5_check(s)
            secs = time.time() - t0
            if r2 == "unsat":
                res = Result(full, "proved", "cvc5", secs, smt=smt)
            elif r2 == "sat":
                res = Result(full, "failed", "cvc5", secs, detail="cvc5 sat (no model extracted)", smt=smt)
            else:
                res = Result(full, "unknown", "z3+cvc5", secs, detail=f"z3: {s.reason_unknown()}; cvc5: {r2}", smt=smt)
        self.results.append(res)
        return res

    def cvc5_check(self, solver):
        try:
            txt = solver.to_smt2()
        except Exception as e:
            return "error:" + str(e)
        txt = "(set-logic ALL)\n" + "\n".join(l for l in txt.splitlines() if not l.startswith("(set-info"))
        with tempfile.NamedTemporaryFile("w", suffix=".smt2", delete=False, dir=os.environ.get("PYVC_TMP", None)) as f:
            f.write(txt)
            path = f.name
        try:
            p = subprocess.run(["/usr/bin/cvc5", "--tlimit", str(CVC5_TIMEOUT_S * 1000), path],
                               capture_output=True, text=True, timeout=CVC5_TIMEOUT_S + 10)
            out = p.stdout.strip().splitlines()
            return out[0] if out else ("error:" + p.stderr.strip()[:200])
        except subprocess.TimeoutExpired:
            return "timeout"
        finally:
            os.unlink(path)

    def check_vacuity(self, name, c=None):
        """guard against vacuous proofs: the hypotheses (nonlinear terms abstracted) must not be contradictory.
        (A satisfying model of the real hypotheses is exhibited by the concrete-length runs of the same script.)"""
        c = c or ctx()
        s = z3.Solver()
        s.set("timeout", 10000)
        for h in abstract_nl(c.hyps()):
            s.add(h)
        r = s.check()
        self.vacuity.append((f"{self.label}/{name}/path{self.paths}", str(r)))
        if r == z3.unsat:
            raise VerifError(f"vacuous hypotheses at {self.label}/{name}")
        return r

    # -- induction ------------------------------------------------------
    def induction(self, name, P, lo=0, hi=None, c=None, hyp=None):
        """prove  forall k. lo <= k (<= hi) -> P(k)  by induction on k; returns inst(i) adding P(i) as a fact.
        P: z3 Int term -> bool formula (may register ghost unfoldings while being built).
        hyp(k): optional side condition assumed for k (e.g. ranges) -- must be a consequence of the context."""
        c = c or ctx()
        base = P(z3.IntVal(lo) if isinstance(lo, int) else lo)
        rb = self.prove(name + ".base", base, c=c)
        k = z3.Int(c.fresh("ind_k"))
        pk = P(k)
        pk1 = P(k + 1)
        extra = [k >= lo, zb(pk)]
        if hi is not None:
            extra.append(k + 1 <= zi(hi))
        rs = self.prove(name + ".step", pk1, extra=extra, c=c)
        ok = rb.status == "proved" and rs.status == "proved"

        def inst(i):
            if not ok:
                return False
            g = [icmp(">=", i, lo)]
            if hi is not None:
                g.append(icmp("<=", i, hi))
            c.assume(bimp(band(*g), P(zi(i))))
            return True

        inst.ok = ok
        return inst

    def prove_using(self, name, goal, hyps, opaque=(), timeout_ms=None):
        """modular lemma application: prove `goal` from the listed hypotheses ONLY (each must be an established fact:
        a proved obligation, an assumed contract clause or a precondition), after replacing the listed values by
        fresh variables (generalisation: validity of the abstracted implication implies the instance)."""
        c = ctx()
        pairs = []
        for k, xv in enumerate(opaque):
            if isinstance(xv, XR):
                comps = [("v", xv.v), ("nan", xv.nan), ("pinf", xv.pinf), ("ninf", xv.ninf)]
            else:
                comps = [("t", iterm(bterm(xv)) if not isinstance(xv, z3.ExprRef) else xv)]
            for cn, t in comps:
                if isinstance(t, z3.ExprRef) and not (z3.is_const(t) and t.decl().kind() == z3.Z3_OP_UNINTERPRETED) \
                        and not z3.is_rational_value(t) and not z3.is_int_value(t) and not z3.is_true(t) and not z3.is_false(t):
                    fv = z3.Const(c.fresh(f"opq{k}.{cn}"), t.sort())
                    pairs.append((t, fv))
        # substitute larger terms first so that components nested in other components are handled consistently
        pairs.sort(key=lambda p: -len(p[0].sexpr()))
        def sub(f):
            f = zb(bterm(f) if isinstance(f, SBool) else f)
            for t, fv in pairs:
                f = z3.substitute(f, (t, fv))
            return f
        g = sub(goal)
        hs = [sub(h) for h in hyps]
        full = f"{self.label}/{name}/path{self.paths}"
        t0 = time.time()
        s = z3.Solver()
        s.set("timeout", timeout_ms or Z3_TIMEOUT_MS)
        for h in hs:
            s.add(h)
        s.add(z3.Not(g))
        r = s.check()
        secs = time.time() - t0
        if r == z3.unsat:
            res = Result(full, "proved", "z3(modular)", secs)
            self.results.append(res)
            return res
        if r == z3.sat and os.environ.get("PYVC_DEBUG"):
            m = s.model()
            print("DEBUG modular failure", full)
            if z3.is_and(g):
                for cj in g.children():
                    print("   conjunct", str(z3.simplify(m.eval(cj, model_completion=True))), "::", str(cj)[:300])
            else:
                print("   goal:", str(z3.simplify(g))[:1500])
                print("   model:", str(m)[:800])
        # the modular context drops hypotheses, so a counter-model here may be spurious: decide in the full context
        res = self.prove(name, goal)
        if res.status != "proved":
            res.detail = (res.detail + " (modular attempt: %s)" % r).strip()
        return res

    def forall_lemma(self, name, n, P, c=None):
        """prove P(i) at a fresh Skolem index 0 <= i < n; returns inst(i) assuming P(i) (guarded by the range)"""
        c = c or ctx()
        if isinstance(n, int):
            oks = [self.prove(f"{name}@{k}", P(k), c=c).status == "proved" for k in range(n)]
            return lambda i: all(oks)
        i0 = z3.Int(c.fresh("lem_i"))
        c.index_terms_add(i0)
        r = self.prove(name, P(i0), extra=[i0 >= 0, i0 < zi(n)], c=c)
        ok = r.status == "proved"

        def inst(i):
            if ok:
                c.assume(bimp(band(icmp(">=", i, 0), icmp("<", i, n)), P(zi(i))))
            return ok

        return inst

    # -- summaries --------------------------------------------------------
    def summary(self):
        st = {}
        for r in self.results:
            st[r.status] = st.get(r.status, 0) + 1
        return st


def explore(run_path, session, max_paths=4000):
    """DFS over decision trails. run_path(ctx) executes one path (raises nothing for normal completion)."""
    stack = [[]]
    npaths = 0
    while stack:
        prefix = stack.pop()
        c = Ctx(prefix)
        Ctx.cur = c
        session.paths = npaths
        try:
            run_path(c)
            end = "ok"
        except PathInfeasible:
            end = "infeasible"
        npaths += 1
        session.path_ends[end] = session.path_ends.get(end, 0) + 1
        if npaths > max_paths:
            raise Unsupported(f"more than {max_paths} paths in {session.label}")
        for k in range(len(prefix), len(c.decisions)):
            if k in c.forks:
                stack.append(c.decisions[:k] + [False])
    session.paths = npaths
    Ctx.cur = None
    return npaths
