"""adapters: build real objects from JSON inputs, call the real function (runs under /venv/bin/python)"""
import math
from fractions import Fraction
import numpy as np


def num(v):
    if isinstance(v, str):
        if v in ("nan", "NaN"):
            return float("nan")
        if v in ("inf", "+inf"):
            return float("inf")
        if v == "-inf":
            return float("-inf")
        return float(Fraction(v))
    return v


def to_json(o):
    if isinstance(o, (np.floating, float)):
        f = float(o)
        if f != f:
            return "nan"
        if f == float("inf"):
            return "inf"
        if f == float("-inf"):
            return "-inf"
        return f
    if isinstance(o, (np.integer,)):
        return int(o)
    if isinstance(o, (np.bool_,)):
        return bool(o)
    if isinstance(o, np.ndarray):
        return [to_json(x) for x in o.tolist()]
    if isinstance(o, (list, tuple)):
        return [to_json(x) for x in o]
    if isinstance(o, dict):
        return {str(k): to_json(v) for k, v in o.items()}
    if isinstance(o, (int, str, bool)) or o is None:
        return o
    if hasattr(o, "__dict__"):
        return {"__class__": type(o).__name__, **{k: to_json(v) for k, v in o.__dict__.items() if not callable(v)}}
    return repr(o)


def resolve(spec, inputs):
    """a descriptor value: name of an input, {"const": v}, or "inf" """
    if isinstance(spec, dict) and "const" in spec:
        return spec["const"]
    if spec == "inf":
        return np.inf
    v = inputs[spec]
    if isinstance(v, list):
        return np.array([num(x) for x in v], dtype=float)
    return num(v)


def dispatch(call, inputs):
    return globals()["call_" + call["kind"]](call, inputs)


def call_nonneg_method(call, inputs):
    """NonnegMean method with attributes taken from inputs; abstract estim/bet = fixed vectors"""
    from shangrla.core.NonnegMean import NonnegMean
    attrs = {k: resolve(v, inputs) for k, v in call.get("attrs", {}).items()}
    if "N" in attrs and attrs["N"] != np.inf:
        attrs["N"] = int(attrs["N"])
    kw = {}
    for role, name in call.get("abstract", {}).items():
        vec = np.array([num(x) for x in inputs[name]], dtype=float)
        kw[role] = (lambda vec: (lambda self, x, **k: vec.copy()))(vec)
    for role, name in call.get("named", {}).items():
        kw[role] = getattr(NonnegMean, name)
    init = {k: attrs.pop(k) for k in ("u", "N", "t") if k in attrs}
    if "random_order" in attrs:
        init["random_order"] = bool(attrs.pop("random_order"))
    obj = NonnegMean(**kw, **init, **attrs)
    args = [resolve(a, inputs) for a in call.get("args", [])]
    if "N" in call.get("args_int", []):
        pass
    meth = getattr(obj, call["method"])
    return meth(*args)


def call_module_function(call, inputs):
    import importlib
    mod = importlib.import_module(call["module"])
    f = mod
    for p in call["qual"].split("."):
        f = getattr(f, p)
    args = [resolve(a, inputs) for a in call.get("args", [])]
    return f(*args)


def call_nonneg_sample_size(call, inputs):
    """deterministic sample size with a recording test: returns the estimate, the population handed to the test and
    the history the test returned (alpha_mart with its default estimator)"""
    from shangrla.core.NonnegMean import NonnegMean
    x = np.array([num(v) for v in inputs["x"]], dtype=float)
    N = int(inputs["N"])
    u = num(inputs["u"])
    rec = {}
    obj = NonnegMean(u=u, N=N, t=u / 2)
    real = obj.test

    def test(pop, **kw):
        rec["pop"] = np.array(pop, dtype=float)
        r = real(pop, **kw)
        rec["hist"] = r[1]
        return r

    obj.test = test
    ss = obj.sample_size(x, alpha=num(inputs["alpha"]))
    return {"sam_size": ss, "pop": rec["pop"], "hist": rec["hist"]}
