"""Native side of a replay: runs the REAL repository code under /venv/bin/python on a concrete input and prints
the result as JSON.  Usage: /venv/bin/python replay/run.py  < request.json   (request: {"repo":..., "call":..., "inputs":...})"""
import sys
import os
import json
import math
import warnings


def main():
    req = json.load(sys.stdin)
    repo = req.get("repo") or os.environ.get("SHANGRLA_REPO", "/repo")
    sys.path.insert(0, repo)
    sys.path.insert(0, os.path.dirname(os.path.abspath(__file__)))
    warnings.simplefilter("ignore")
    import adapters
    try:
        out = adapters.dispatch(req["call"], req["inputs"])
        res = {"ok": True, "value": adapters.to_json(out)}
    except Exception as e:  # the real code raised: that is a result, not a harness failure
        res = {"ok": False, "exception": type(e).__name__, "message": str(e)[:300]}
    import shangrla
    res["shangrla_file"] = shangrla.__file__
    json.dump(res, sys.stdout)


if __name__ == "__main__":
    main()
