#!/bin/bash
# usage: confirm_seed.sh <dir with patch.diff demo.py> ; confirms: applies, suite passes, demo fails with / passes without
d=$1; W=/tmp/w/mut
cd $W && git checkout -q -- . || exit 9
SHANGRLA_ROOT=$W /venv/bin/python $d/demo.py >/dev/null 2>&1; clean=$?
git apply $d/patch.diff 2>/dev/null || { echo "APPLY-FAIL"; exit 8; }
SHANGRLA_ROOT=$W /venv/bin/python $d/demo.py >/dev/null 2>&1; mut=$?
tests=$(cd $W && PYTHONPATH=$W /venv/bin/python -m pytest -q -p no:cacheprovider 2>&1 | tail -1 | grep -o "[0-9]* passed")
git checkout -q -- .
echo "demo_clean=$clean demo_mut=$mut tests='$tests'"
