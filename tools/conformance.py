#!/usr/bin/env python3
"""Conformance of pyvc's Python / numpy model with CPython + numpy: every snippet of conformance/confpkg/snippets.py is run
natively and through pyvc's interpreter on the same concrete inputs; results must agree (exactly for ints / bools / special
values, to 1e-9 relative for finite floats: pyvc computes with exact rationals).  usage: python3-vt tools/conformance.py [n]"""
import sys, os, math, random, json
from fractions import Fraction
ROOT = os.path.dirname(os.path.dirname(os.path.abspath(__file__)))
sys.path.insert(0, ROOT)
sys.path.insert(0, os.path.join(ROOT, "conformance"))
import numpy as np
import z3
from pyvc.core import *
from pyvc.values import *
from pyvc.interp import Interp, Obj
from pyvc.vc import explore
from pyvc.script import Script

VALS = [0.0, 0.5, 1.0, 2.0, -1.0, 0.25, 3.0, float("inf"), float("nan"), -0.5]
FIN = [0.0, 0.5, 1.0, 2.0, -1.0, 0.25, 3.0, -0.5]


def to_engine(v):
    if isinstance(v, bool) or v is None or isinstance(v, str):
        return v
    if isinstance(v, int):
        return v
    if isinstance(v, float):
        if math.isnan(v):
            return XR.const(float("nan"))
        if math.isinf(v):
            return XR.const(v)
        return XR.const(Fraction(v))
    if isinstance(v, np.ndarray):
        return SymArr(len(v), kind="xr", items=[to_engine(float(t)).asnp() for t in v])
    if isinstance(v, list):
        return [to_engine(t) for t in v]
    if isinstance(v, dict):
        return {k: to_engine(t) for k, t in v.items()}
    raise TypeError(type(v))


def to_native(v):
    from pyvc.heap import FStr
    if isinstance(v, (bool, int, str)) or v is None:
        return v
    if isinstance(v, SBool):
        t = z3.simplify(v.t)
        return bool(z3.is_true(t))
    if isinstance(v, SInt):
        return z3.simplify(v.t).as_long()
    if isinstance(v, Fraction):
        return float(v)
    if isinstance(v, XR):
        if not v.is_const():
            # sqrt is modelled as an uninterpreted function with the axioms s >= 0, s*s = a: read its argument back
            t = z3.simplify(v.v) if isinstance(v.v, z3.ExprRef) else None
            if t is not None and z3.is_app(t) and t.decl().name().startswith("sqrt") and v.nan in (True, False):
                if v.nan is True:
                    return float("nan")
                if v.pinf is True:
                    return float("inf")
                a = t.arg(0)
                return math.sqrt(float(a.numerator_as_long()) / float(a.denominator_as_long()))
            raise ValueError("non-constant result " + repr(v))
        if v.nan is True:
            return float("nan")
        if v.pinf is True:
            return float("inf")
        if v.ninf is True:
            return float("-inf")
        return float(v.v)
    if isinstance(v, SymArr):
        n = v.length if isinstance(v.length, int) else z3.simplify(zi(v.length)).as_long()
        return [to_native(v.at(i)) for i in range(n)] if v.items is None else [to_native(t) for t in v.items]
    if isinstance(v, (list, tuple)):
        return [to_native(t) for t in v]
    if isinstance(v, FStr):
        return "".join(str(to_native(p)) for p in v.parts)
    raise TypeError("cannot convert " + type(v).__name__)


def norm(v):
    if isinstance(v, (np.bool_,)):
        return bool(v)
    if isinstance(v, (np.integer,)):
        return int(v)
    if isinstance(v, (np.floating,)):
        return float(v)
    if isinstance(v, np.ndarray):
        return [norm(t) for t in v.tolist()]
    if isinstance(v, (list, tuple)):
        return [norm(t) for t in v]
    return v


def same(a, b):
    if isinstance(a, list) or isinstance(b, list):
        return isinstance(a, list) and isinstance(b, list) and len(a) == len(b) and all(same(x, y) for x, y in zip(a, b))
    if isinstance(a, bool) or isinstance(b, bool):
        return bool(a) == bool(b) and not isinstance(a, float) and not isinstance(b, float) or (a == b)
    if isinstance(a, (int, float)) and isinstance(b, (int, float)):
        if isinstance(a, float) and math.isnan(a) or isinstance(b, float) and math.isnan(b):
            return isinstance(a, float) and isinstance(b, float) and math.isnan(a) and math.isnan(b)
        if a in (float("inf"), float("-inf")) or b in (float("inf"), float("-inf")):
            return a == b
        return abs(a - b) <= 1e-9 * max(1.0, abs(a), abs(b))
    return a == b


def gen_inputs(name, rng):
    arr = lambda vals=VALS, lo=1, hi=5: np.array([rng.choice(vals) for _ in range(rng.randint(lo, hi))], dtype=float)
    two = lambda vals=VALS: (lambda n: (np.array([rng.choice(vals) for _ in range(n)], dtype=float), np.array([rng.choice(vals) for _ in range(n)], dtype=float)))(rng.randint(1, 5))
    if name in ("s_cumsum", "s_cumprod", "s_shifted_cumsum", "s_shifted_cumsum_kw", "s_sum_mean", "s_welford"):
        return [arr(FIN)]
    if name in ("s_clip_recip", "s_isfinite", "s_sqrt_abs", "s_max_argmax"):
        return [arr(VALS if name != "s_max_argmax" else FIN + [float("inf")])]
    if name == "s_divide_where":
        return list(two(FIN))
    if name in ("s_minimum_maximum", "s_divide", "s_arith", "s_isclose"):
        return list(two(VALS if name != "s_isclose" else FIN + [float("inf")]))
    if name in ("s_mask_assign", "s_compare_count"):
        return [arr(FIN + [float("inf")]), rng.choice(FIN)]
    if name == "s_arange":
        return [rng.randint(0, 9), rng.randint(1, 4)]
    if name == "s_tile_repeat":
        return [arr(FIN, 1, 3), rng.randint(1, 7)]
    if name == "s_append":
        return [arr(FIN, 0, 3), rng.choice(FIN)]
    if name == "s_slices":
        return [arr(FIN, 2, 5)]
    if name == "s_searchsorted":
        return [arr(FIN, 1, 5), float(rng.randint(0, 8))]
    if name == "s_py_int_ops":
        return [rng.randint(-7, 9), rng.randint(-4, 5)]
    if name in ("s_py_float_ops", "s_conditional_chain"):
        return [rng.choice(FIN), rng.choice(FIN)]
    if name in ("s_sorted", "s_any_all"):
        return [[rng.choice(FIN) for _ in range(rng.randint(0 if name == "s_any_all" else 1, 5))]]
    if name == "s_dicts":
        ks = ["k1", "k2", "k3", "k4"]
        return [{k: rng.randint(-2, 3) for k in rng.sample(ks, rng.randint(0, 3))}, {k: rng.randint(-2, 3) for k in rng.sample(ks, rng.randint(0, 3))}]
    if name == "s_ones_scale":
        return [rng.randint(0, 5), rng.choice(FIN)]
    if name == "s_index_assign":
        return [rng.randint(1, 9), rng.randint(1, 4)]
    if name == "s_strings":
        return [rng.randint(0, 12), rng.randint(0, 12)]
    if name == "s_list_ops":
        return [[rng.randint(0, 3) for _ in range(rng.randint(0, 4))], rng.randint(0, 3)]
    raise KeyError(name)


def main():
    n = int(sys.argv[1]) if len(sys.argv) > 1 else 60
    from confpkg import snippets as native
    names = [k for k in dir(native) if k.startswith("s_")]
    rng = random.Random(12345)
    I = Interp(os.path.join(ROOT, "conformance"))
    total = bad = unsupported = 0
    report = []
    for name in names:
        fn_e = I.get("confpkg.snippets", name)
        nbad = nuns = 0
        for _ in range(n):
            args = gen_inputs(name, rng)
            with np.errstate(all="ignore"):
                try:
                    exp = ("ok", norm(getattr(native, name)(*[a.copy() if isinstance(a, np.ndarray) else (dict(a) if isinstance(a, dict) else (list(a) if isinstance(a, list) else a)) for a in args])))
                except Exception as ex:
                    exp = ("raise", type(ex).__name__)
            got_box = {}

            def path(c):
                try:
                    got_box["v"] = ("ok", to_native(I.call(fn_e, [to_engine(a) for a in args], {})))
                except PyRaise as e:
                    got_box["v"] = ("raise", e.exc_type)

            S = Script("conformance/" + name)
            try:
                explore(path, S)
                got = got_box.get("v")
            except Unsupported as e:
                got = ("unsupported", str(e)[:80])
            except Exception as e:
                got = ("crash", type(e).__name__ + ": " + str(e)[:80])
            total += 1
            if got[0] == "unsupported":
                nuns += 1
                unsupported += 1
                continue
            ok = got[0] == exp[0] and (same(got[1], exp[1]) if got[0] == "ok" else got[1] == exp[1])
            if not ok:
                nbad += 1
                bad += 1
                if nbad <= 2:
                    report.append({"snippet": name, "args": json.loads(json.dumps([norm(a) if not isinstance(a, dict) else a for a in args], default=str)),
                                   "native": exp, "pyvc": got})
        print(f"{name}: {n - nbad - nuns}/{n} agree" + (f", {nuns} outside the modelled fragment" if nuns else "") + (f", {nbad} DISAGREE" if nbad else ""))
    for r in report:
        print("DISAGREEMENT", json.dumps(r, default=str)[:600])
    print(f"total {total} runs, {bad} disagreements, {unsupported} outside the modelled fragment")
    return 1 if bad else 0


if __name__ == "__main__":
    sys.exit(main())
