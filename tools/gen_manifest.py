#!/usr/bin/env python3
"""regenerate /verif/MANIFEST.json from the per-property table below"""
import json, os
ROOT = os.path.dirname(os.path.dirname(os.path.abspath(__file__)))
ALL = [json.loads(l)["id"] for l in open(os.path.join(ROOT, "properties.jsonl"))]

CLAIMED = {
 "C01": ("proof", "Supermartingale certificate proved on the real code for every test x estimator/bet: product form (C12 scripts), each factor "
         "= 1 + lam_i (x_i - mu_i) with lam_i >= 0 and lam_i mu_i <= 1 under the estimator/bet interface, predictability (C05 scripts), "
         "null mean mu_i from the input's partial sums, p = min of the history (C11 scripts), +inf overrides only on null-impossible events. "
         "The probability statement itself follows by two trusted textbook theorems (Ville; conditional mean under SRSWOR); known findings "
         "K1,K2,K3,K4,K6,K9 are estimator/test corners where a certificate clause fails on the unchanged tree.",
         "trusted: Ville's inequality, SRSWOR conditional mean; exact-real float model; numpy axioms; own VC generator", "§4.C01"),
 "C05": ("proof", "Relational (two-run) obligations on the real code: histories of two samples agreeing in the first k draws agree in the first k "
         "entries; truncation leaves k-1 entries unchanged and the k-th equal or 0 when the total exceeds N t; every shipped estimator/bet entry j "
         "is a function of x_0..x_{j-1}. Unbounded in n via induction lemmas on ghost running sums/products.",
         "exact-real float model; numpy axioms; estimator interface for the abstract-estimator runs proved per shipped estimator", "§4.C05"),
 "C11": ("proof", "For symbolic n, N, u, t, parameters: history length n, every entry in [0,1] and not NaN, p in [0,1], p = min history (random order) "
         "or last entry, for alpha/betting (under the estimator/bet interface), Kaplan-Markov, Kaplan-Wald, Kaplan-Kolmogorov (padded regime), SPRT "
         "(inside regime); known findings K1,K3,K4,K9 recorded with replayed witnesses.",
         "exact-real float model (no rounding/overflow); numpy axioms incl. np.max contract", "§4.C11"),
 "C12": ("proof", "Each history entry of every test equals the published product (stated over the input's partial sums, not the code's), with the "
         "boundary conventions in priority order, for symbolic n; ALPHA==betting under eta = lam_to_eta(lam, mu) using the real conversion "
         "function; conversions mutually inverse. Induction lemmas tie the code's np.cumprod to the spec product.",
         "exact-real float model; numpy axioms", "§4.C12"),
 "C13": ("proof", "Exact functional postconditions of every shipped estimator and bet plus range clauses, for symbolic n and parameters; Welford loop "
         "verified with a loop invariant; known findings K1,K2,K3,K6 proved outside their carve-outs and replayed inside.",
         "exact-real float model; sqrt axiomatised (s>=0, s*s=a)", "§4.C13"),
 "C16": ("proof", "NonnegMean.sample_size (deterministic branch): the hypothetical population is the pilot data tiled to length N and the result is the "
         "first crossing of the history returned by the (abstract, interface-contracted) test, else N.",
         "test abstracted by its C11 interface; exact-real model; simulation branch, Assertion.find_sample_size, interleave_values: see evidence", "§4.C16"),
}
NA_REASON = "check not built yet (construction in progress; planned as in DESIGN.md §4)"

def main():
    checks = []
    for pid in ALL:
        if pid not in CLAIMED:
            continue
        cat, text, note, ref = CLAIMED[pid]
        checks.append({
            "property_id": pid,
            "quick_cmd": f"python3-vt checks/check.py {pid} --tier quick",
            "thorough_cmd": f"python3-vt checks/check.py {pid} --tier thorough",
            "evidence_file": f"/verif/evidence/{pid}.json",
            "replay_cmd_template": "python3-vt checks/check.py --replay {path}",
            "engine": "pyvc",
            "level_claimed": {"category": cat, "text": text, "design_ref": "DESIGN.md " + ref},
            "level_note": note,
            "technique": "contract-based deductive verification: sidecar contracts on the real functions, VCs generated from /repo's AST by pyvc, discharged by z3 (cvc5 on unknown); counter-models refuted at concrete lengths and replayed on the real code",
        })
    m = {
        "version": 1,
        "setup_cmd": "python3-vt -m compileall -q pyvc contracts checks replay && python3-vt -c \"import z3; print('z3', z3.get_version_string())\" && /venv/bin/python -c \"import sys; sys.path.insert(0,'/repo'); import shangrla, numpy; print('ok')\"",
        "hooks": {"guard": "SHANGRLA_VERIF", "enable": "no hooks: contracts are sidecar files in /verif/contracts, /repo is read (ast) and imported, never instrumented",
                  "baseline_off_cmd": "cd /repo && /venv/bin/python -m pytest -ra -q -p no:cacheprovider --timeout=900 --continue-on-collection-errors",
                  "source_commits": [], "add_only": True},
        "engines": [{"name": "pyvc", "path": "/verif/pyvc", "serves_properties": sorted(CLAIMED),
                     "kind_free_text": "own verification-condition generator: symbolic executor over the Python ast of /repo with extended-real scalars, arrays as (length, index->value) with ghost folds, induction lemmas, modular lemma application; z3 + cvc5 back ends; native replay harness under /venv/bin/python"}],
        "checks": checks,
        "notes": "see DESIGN.md; known findings in known_findings.txt; seeded changes in seeded/",
        "not_applicable": [{"property_id": p, "reason": NA_REASON} for p in ALL if p not in CLAIMED],
    }
    json.dump(m, open(os.path.join(ROOT, "MANIFEST.json"), "w"), indent=1)

if __name__ == "__main__":
    main()
