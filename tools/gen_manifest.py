#!/usr/bin/env python3
"""regenerate /verif/MANIFEST.json from the per-property table below"""
import json, os
ROOT = os.path.dirname(os.path.dirname(os.path.abspath(__file__)))
ALL = [json.loads(l)["id"] for l in open(os.path.join(ROOT, "properties.jsonl"))]

CLAIMED = {
 "C01": ("proof", "Supermartingale certificate proved on the real code for every test x estimator/bet: product form (C12 scripts), each factor "
         "= 1 + lam_i (x_i - mu_i) with lam_i >= 0 and lam_i mu_i <= 1 under the estimator/bet interface, predictability (C05 scripts), "
         "null mean mu_i from the input's partial sums, p = min of the history (C11 scripts), +inf overrides only on null-impossible events. "
         "The probability statement itself follows by two trusted textbook theorems (Ville; conditional mean under SRSWOR); known findings "
         "K1,K2,K3,K4,K6,K9 are estimator/test corners where a certificate clause fails on the unchanged tree.",
         "trusted: Ville's inequality, SRSWOR conditional mean; exact-real float model; numpy axioms; own VC generator", "§4.C01"),
 "C02": ("proof", "Per-card: every plurality / super-majority assorter lambda the repository builds is executed symbolically on a fully symbolic "
         "card (any subset of contests/candidates present, integer-encoded marks) and proved equal to (w-l+1)/2 resp. w/(2f)|1/2, in range, with the "
         "right captured pair; lemma (unbounded n, induction on ghost sums): mean > 1/2 <=> winner has more votes / share > f; margin from tally = "
         "2 mean - 1 (super-majority: stated from the property, which exposed and repaired defect F14). Unbounded number of cards: Assorter.mean / sum, "
         "Contest.tally (counter-loop summary). Structure-bounded: make_all_assertions (k winners, super-majority), find_margins_from_tally, tally / "
         "mean on lists n <= 3. Native stand-in: assorters on every small collection incl. the tally margins.",
         "marks are integers (any numeric encoding), non-numeric encodings not modelled; candidate sets of the scripts are fixed (5 / 3 names)", "§4.C02"),
 "C03": ("other", "Per-pair posts of Assorter.overstatement and Assertion.overstatement_assorter proved for fully symbolic (MVR, CVR) pairs with an "
         "interface-contracted assorter; population identity proved as a lemma over ghost sums for unbounded n; pool means / margins / "
         "add_pool_contests checked on bounded lists (n <= 3 symbolic cards).", "list-level code bounded; assorter abstracted by its interface", "§4.C03"),
 "C04": ("other", "Deductive part: the per-node step of the search, find_best_audit, is proved for 3 candidates, every tail, ANY number of symbolic "
         "ballots, a symbolic NEB matrix and an uninterpreted difficulty function: a chosen NEN is NEN(first in tail, later candidate | exactly the "
         "candidates outside the tail), reports the true tallies over the ballots (sums proved pointwise equal to 'first standing preference'), "
         "winner strictly larger, and the chosen assertion has the least difficulty among all applicable assertions (none iff none applies); "
         "ballot predicates proved in the C14 scripts. The search loop itself (frontier, pruning, termination) is covered by a bounded stand-in: "
         "exhaustive small profiles (2-3 candidates all multisets of <= 4-5 ballots, 4 candidates sampled) against a brute-force oracle over all "
         "elimination orders and all true NEB/NEN assertions.", "search loop bounded; per-node choice proved for 3 candidates", "§4.C04"),
 "C05": ("proof", "Relational (two-run) obligations on the real code: histories of two samples agreeing in the first k draws agree in the first k "
         "entries; truncation leaves k-1 entries unchanged and the k-th equal or 0 when the total exceeds N t; every shipped estimator/bet entry j "
         "is a function of x_0..x_{j-1}. Unbounded in n via induction lemmas on ghost running sums/products.",
         "exact-real float model; numpy axioms; estimator interface for the abstract-estimator runs proved per shipped estimator; the Kaplan and SPRT tests are covered through their product-form postconditions (entry j pinned to a function of the first j draws) and, like every other test x estimator / bet, by the BOUNDED native stand-in nonneg_nonanticipation (samples over {0, u/2, u} up to length 4-5, every cut point; never counted as proved)", "§4.C05"),
 "C06": ("other", "Range 0 <= B <= 2/(2-v/u) and u proved per symbolic pair; mvrs_to_data proved for an UNBOUNDED number of sampled cards (symbolic record "
         "lists: a card contributes iff no style information or its CVR lists the contest and its sample number is within the threshold; each "
         "value = B(mvr_i, cvr_i) in [0,u]; polling: assort(mvr_i) in [0,u_assorter]) and, kept, for lists of <= 3 symbolic pairs (all presence patterns); set_p_values proved to install u before each test call for bounded contest/assertion shapes; "
         "IRV assorter values in {0,1/2,1} (C14 scripts); set_all_margins_from_cvrs installs, per assertion, the bound that goes with that "
         "assertion's own margin (2 contests x 2 assertions, symbolic).", "contest/assertion shapes bounded where said", "§4.C06"),
 "C07": ('other', "UNBOUNDED (symbolic number of cards, 2 contests): consistent_sampling's while loop proved by an inductive invariant on the real body "
         "(per-contest count = min(n_c, cards of c so far), threshold = sample number of c's n_c-th card, the p-th selected card is the p-th card "
         "that lists a contest whose first n_c cards are incomplete, position advances by one, no IndexError given n_c <= cards listing c); "
         "sorted(enumerate(..), key=sample_num) by its contract (permutation ordered by the key, key checked to be the sample number). "
         "Structure-bounded (1-3 cards, every leaf symbolic): full closed form incl. returned order and the sampled flags; exhaustive native "
         "stand-in up to 4-5 cards; per-contest data filter (mvrs_to_data) proved for <= 3 pairs; assign_sample_nums bounded.",
         'contests fixed at 2 in the unbounded proof; contract of sorted trusted; flag-setting loop only in the structure-bounded scripts', '§4.C07'),
 "C08": ('other', "UNBOUNDED (symbolic number of CVRs, card bounds and phantoms, 2 contests): make_phantoms proved through verified loop summaries of "
         "its three loops (append loops: the real body run on a list of arbitrary length; `while` test proved equivalent to len < final length; "
         "contest-listing loop: real body run at an arbitrary position, frame checked): originals first and identical, returned count, phantom "
         "flags, unique identifiers, number of phantoms = largest shortfall, phantom q lists c iff q < cards_c - cvrs_c, records listing c = "
         "cards_c (counting lemma by induction), total = stratum bound without style. Scoring clauses (phantom MVR never increases B; phantom CVR "
         "scored 1/2) proved per symbolic pair; structure-bounded scripts (<= 2 CVRs) and exhaustive native stand-in (<= 3-4 CVRs) kept.",
         'contests fixed at 2; input records are real CVRs (phantom=False); str(int) injective', '§4.C08'),
 "C09": ("other", "UNBOUNDED numbers of contests and of assertions per contest (nested summaries; reset_p_values: 2 contests): set_p_values / summarize_status / reset_p_values proved through record-loop "
         "summaries on the real loop bodies (each assertion records exactly what its test returned on its own data, with the bound installed "
         "first; proved = p <= the contest's own limit or proved before; measured risk = running maximum; 'complete iff every assertion of "
         "every contest has p <= that contest's limit' via induction lemmas: upper bound and attainment of the running maximum; reset gives "
         "p = 1, empty history, unconfirmed everywhere). Kept: the same three functions for 1-3 contests x 1-2 assertions with every p-value, "
         "limit and flag symbolic.", "tests and mvrs_to_data through their interfaces; dict iteration order abstracted to positions", "§4.C09"),
 "C10": ("other", "Lemmas over the consistent_sampling contract (which the loop-invariant script proves of the real code), unbounded: with sizes n <= n' every "
         "card selected before is selected again, every contest's old observations are a prefix (in sample-number order) of its new ones, and the "
         "threshold filter keeps exactly the contest's first n_c cards; data extended => history extended (C05 obligations, proved). Bounded "
         "stand-in: two rounds with every pair of size vectors n <= n' on <= 4-5 cards, redraw and continue variants, p-values over rounds. "
         "The continuation call was repaired (F15) and is now proved too: the loop-invariant script has a 'continued from earlier samples' variant "
         "(symbolic list of earlier samples: they are kept in place, thresholds and per-contest cards are those of a fresh draw, new cards are the "
         "taken cards not sampled before).", "multi-round p-values bounded", "§4.C10"),
 "C11": ("proof", "For symbolic n, N, u, t, parameters: history length n, every entry in [0,1] and not NaN, p in [0,1], p = min history (random order) "
         "or last entry, for alpha/betting (under the estimator/bet interface), Kaplan-Markov, Kaplan-Wald, Kaplan-Kolmogorov (padded regime), SPRT "
         "(inside regime); the constructor stores every argument (random_order included) and binds the requested test; known findings K1,K3,K4,K9 "
         "recorded with replayed witnesses. Native stand-ins: integer-typed samples, and every test built through the constructor on every small "
         "sample over {0,u/2,u} against the published products (engine-independent).",
         "exact-real float model (no rounding/overflow); numpy axioms incl. np.max contract", "§4.C11"),
 "C12": ("proof", "Each history entry of every test equals the published product (stated over the input's partial sums, not the code's), with the "
         "boundary conventions in priority order, for symbolic n; ALPHA==betting under eta = lam_to_eta(lam, mu) using the real conversion "
         "function; conversions mutually inverse. Induction lemmas tie the code's np.cumprod to the spec product.",
         "exact-real float model; numpy axioms", "§4.C12"),
 "C13": ("proof", "Exact functional postconditions of every shipped estimator and bet plus range clauses, for symbolic n and parameters; Welford loop "
         "verified with a loop invariant; known findings K1,K2,K3,K6 proved outside their carve-outs and replayed inside.",
         "exact-real float model; sqrt axiomatised (s>=0, s*s=a)", "§4.C13"),
 "C14": ("other", "For every ranked ballot over 4 candidates (each listed or not, any distinct positions) the audit's IRV_ELIMINATION / WINNER_ONLY "
         "assorter built by the real make_assertions_from_json equals (w-l+1)/2 of the real NEN/NEB verdicts, and the verdicts equal their closed "
         "forms (proved, both modules executed symbolically on linked inputs); readers of the RAIRE format agree: bounded stand-in over small files; "
         "re-applied tallies: RAIRE bounded stand-in (C04).", "candidate count fixed at 4 in the proved part; readers bounded", "§4.C14"),
 "C15": ("other", "Deductive part shared with C04 (find_best_audit chooses the least-difficulty applicable assertion for its node; bp/cp estimators: "
         "closed forms and strict monotonicity in the margin). Whole-search optimality: bounded stand-in shared with C04 (largest difficulty of the "
         "returned set equals max over alternative orders of the cheapest true assertion contradicting it, by brute force, both difficulty "
         "functions, with/without order hint).", "search loop bounded", "§4.C15"),
 "C16": ('other', "Proved for symbolic sizes: NonnegMean.sample_size deterministic branch (tiling, first crossing, else N); Assertion.interleave_values by a loop invariant (exact counts of each value for every non-empty (n_small, n_med, n_big)); Assertion.find_sample_size comparison data (x[i] by position for symbolic N and steps, delegation with the contest's risk limit). Bounded stand-ins: polling data, contest / audit maxima, prefix-crossing simulations.",
         'test abstracted by its C11 interface; int(1/rate) handled for rates of the form 1/step', '§4.C16'),
 "C17": ('other', "Proved for a SYMBOLIC number of batches (pandas abstracted to columns, np.searchsorted by its contract, cumulative counts as ghost sums): one sample number maps to a batch and position with position within the batch's size and s = cards before + position (Dominion 1-based/left, Hart 0-based/right), phantom MVR iff phantom batch; prep_manifest refuses / appends exactly as stated. Bounded stand-in: several samples at once, injectivity, CVR-driven look-up.",
         'pandas / numpy contracts trusted; one sample per proved call', '§4.C17'),
 "C18": ('other', "merge_cvrs executed symbolically for every id pattern of <= 3 records with symbolic flags, contest presence and all tally-pool label combinations (incl. falsy labels): one record per id in first-appearance order, union of contests with the later record's contents, phantom/all, pool/any as a boolean, tally-pool rule and ValueError exactly on conflict. Exhaustive native stand-in (<= 3-4 records); RAIRE reader: bounded.",
         'number of records bounded', '§4.C18'),
 "C19": ('other', "Dominion.read_cvrs executed symbolically on one session with two contests and up to 3 marks per contest (symbolic ranks and IsVote, both layouts, Modified absent / before / after Original, use_current and enforce_rules symbolic): recorded values equal the property's minimum-positive-rank rule and adjudicated data replace original ones for the contests they cover; sessions / groups / pooling for 2 sessions with symbolic groups and options. Sampled native stand-in over generated exports.",
         'JSON structure bounded; json / re / open abstracted', '§4.C19'),
 "C20": ("other", "buildRemainingTreeAsLists executed symbolically for 3 candidates with SYMBOLIC assertion sets (1-3 NEB slots with symbolic loser/winner, one NEN slot per possible eliminated set with a symbolic candidate, symbolic proved flags): unpruned leaf iff some order survives, leaves tagged iff contradicted, tags = firing NEB slots, no contradicted ancestor. Bounded stand-in: candidate sets of size 2-4(5) with random / exhaustive assertion sets against brute force over all orders; rendering and parseAssertions.",
         "candidate count bounded; recursion not proved by induction", "§4.C20"),
}
TECH_PROOF = ("contract-based deductive verification: sidecar contracts on the real functions, VCs generated from /repo's AST by pyvc, "
              "discharged by z3 (cvc5 on unknown); counter-models refuted at concrete lengths and replayed on the real code")
TECH_MIX = ("contract-based deductive verification (pyvc VCs from /repo's AST, z3/cvc5) of the per-record contracts and lemmas; list / search level "
            "by bounded stand-ins (structure-bounded symbolic obligations and exhaustive small-scope run-time contract checks), labelled bounded")
TECH_BOUNDED = ("bounded stand-in only (exhaustive small-scope run-time contract checking of the real function against an oracle written from the "
                "property text); the contract is stated but no deductive proof of this function is within reach of the VC generator yet")
ONLY_BOUNDED = set()
NA_REASON = "check not built yet (construction in progress; planned as in DESIGN.md §4)"

def main():
    checks = []
    for pid in ALL:
        if pid not in CLAIMED:
            continue
        cat, text, note, ref = CLAIMED[pid]
        checks.append({
            "property_id": pid,
            "quick_cmd": f"python3-vt checks/check.py {pid} --tier quick",
            "thorough_cmd": f"python3-vt checks/check.py {pid} --tier thorough",
            "evidence_file": f"/verif/evidence/{pid}.json",
            "replay_cmd_template": "python3-vt checks/check.py --replay {path}",
            "engine": "pyvc",
            "level_claimed": {"category": cat, "text": text, "design_ref": "DESIGN.md " + ref},
            "level_note": note,
            "technique": TECH_PROOF if cat == "proof" else (TECH_BOUNDED if pid in ONLY_BOUNDED else TECH_MIX),
        })
    m = {
        "version": 1,
        "setup_cmd": "python3-vt -m compileall -q pyvc contracts checks replay && python3-vt -c \"import z3; print('z3', z3.get_version_string())\" && /venv/bin/python -c \"import sys; sys.path.insert(0,'/repo'); import shangrla, numpy; print('ok')\"",
        "hooks": {"guard": "SHANGRLA_VERIF", "enable": "no hooks: contracts are sidecar files in /verif/contracts, /repo is read (ast) and imported, never instrumented",
                  "baseline_off_cmd": "cd /repo && /venv/bin/python -m pytest -ra -q -p no:cacheprovider --timeout=900 --continue-on-collection-errors",
                  "source_commits": [], "add_only": True},
        "engines": [{"name": "pyvc", "path": "/verif/pyvc", "serves_properties": sorted(CLAIMED),
                     "kind_free_text": "own verification-condition generator: symbolic executor over the Python ast of /repo with extended-real scalars, arrays as (length, index->value) with ghost folds, induction lemmas, modular lemma application; z3 + cvc5 back ends; native replay harness under /venv/bin/python"}],
        "checks": checks,
        "notes": "see DESIGN.md; known findings in known_findings.txt; seeded changes in seeded/",
        "not_applicable": [{"property_id": p, "reason": NA_REASON} for p in ALL if p not in CLAIMED],
    }
    json.dump(m, open(os.path.join(ROOT, "MANIFEST.json"), "w"), indent=1)

if __name__ == "__main__":
    main()
