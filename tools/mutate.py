#!/usr/bin/env python3
"""Mutation campaign (our own, complements the independently seeded changes): AST-level mutants of the anchored functions that still pass
the repository's 55 tests are run through the quick checks of the properties that rest on the function.
usage: python3 tools/mutate.py <out.jsonl> [max_per_function] [workers]"""
import ast, copy, json, os, random, subprocess, sys, shutil, concurrent.futures as cf

REPO = "/repo"
TARGETS = [
    ("shangrla/core/NonnegMean.py", "NonnegMean.alpha_mart", ["C12", "C11", "C05"]),
    ("shangrla/core/NonnegMean.py", "NonnegMean.betting_mart", ["C12", "C11", "C05"]),
    ("shangrla/core/NonnegMean.py", "NonnegMean.sjm", ["C12", "C05"]),
    ("shangrla/core/NonnegMean.py", "NonnegMean.shrink_trunc", ["C13", "C05"]),
    ("shangrla/core/NonnegMean.py", "NonnegMean.agrapa", ["C13", "C05"]),
    ("shangrla/core/NonnegMean.py", "NonnegMean.fixed_alternative_mean", ["C12", "C13"]),
    ("shangrla/core/NonnegMean.py", "NonnegMean.kaplan_kolmogorov", ["C12", "C11"]),
    ("shangrla/core/NonnegMean.py", "NonnegMean.kaplan_markov", ["C12", "C11"]),
    ("shangrla/core/NonnegMean.py", "NonnegMean.kaplan_wald", ["C12", "C11"]),
    ("shangrla/core/NonnegMean.py", "NonnegMean.wald_sprt", ["C12", "C11"]),
    ("shangrla/core/NonnegMean.py", "NonnegMean.sample_size", ["C16"]),
    ("shangrla/core/NonnegMean.py", "welford_mean_var", ["C13", "C05"]),
    ("shangrla/core/Audit.py", "CVR.get_vote_for", ["C02", "C14"]),
    ("shangrla/core/Audit.py", "CVR.has_one_vote", ["C02"]),
    ("shangrla/core/Audit.py", "CVR.rcv_lfunc_wo", ["C14"]),
    ("shangrla/core/Audit.py", "CVR.rcv_votefor_cand", ["C14"]),
    ("shangrla/core/Audit.py", "CVR.merge_cvrs", ["C18"]),
    ("shangrla/core/Audit.py", "CVR.from_raire", ["C18", "C14"]),
    ("shangrla/core/Audit.py", "CVR.make_phantoms", ["C08"]),
    ("shangrla/core/Audit.py", "CVR.consistent_sampling", ["C07", "C10"]),
    ("shangrla/core/Audit.py", "CVR.add_pool_contests", ["C03"]),
    ("shangrla/core/Audit.py", "CVR.pool_contests", ["C03"]),
    ("shangrla/core/Audit.py", "Assertion.overstatement_assorter", ["C03", "C06"]),
    ("shangrla/core/Audit.py", "Assertion.mvrs_to_data", ["C06", "C07"]),
    ("shangrla/core/Audit.py", "Assertion.set_margin_from_cvrs", ["C03", "C06"]),
    ("shangrla/core/Audit.py", "Assertion.find_margin_from_tally", ["C02"]),
    ("shangrla/core/Audit.py", "Assertion.find_sample_size", ["C16"]),
    ("shangrla/core/Audit.py", "Assertion.interleave_values", ["C16"]),
    ("shangrla/core/Audit.py", "Assertion.make_plurality_assertions", ["C02"]),
    ("shangrla/core/Audit.py", "Assertion.make_supermajority_assertion", ["C02"]),
    ("shangrla/core/Audit.py", "Assertion.make_assertions_from_json", ["C14"]),
    ("shangrla/core/Audit.py", "Assertion.set_p_values", ["C09", "C06"]),
    ("shangrla/core/Audit.py", "Assertion.reset_p_values", ["C09"]),
    ("shangrla/core/Audit.py", "Audit.summarize_status", ["C09"]),
    ("shangrla/core/Audit.py", "Assorter.overstatement", ["C03", "C08"]),
    ("shangrla/core/Audit.py", "Assorter.set_tally_pool_means", ["C03"]),
    ("shangrla/core/Audit.py", "Assorter.mean", ["C02", "C03"]),
    ("shangrla/core/Audit.py", "Contest.tally", ["C02"]),
    ("shangrla/core/Audit.py", "Contest.find_sample_size", ["C16"]),
    ("shangrla/raire/raire_utils.py", "vote_for_cand", ["C14", "C04"]),
    ("shangrla/raire/raire_utils.py", "NEBAssertion.is_vote_for_loser", ["C14", "C04"]),
    ("shangrla/raire/raire_utils.py", "NEBAssertion.subsumes", ["C04"]),
    ("shangrla/raire/raire_utils.py", "NENAssertion.subsumes", ["C04"]),
    ("shangrla/raire/raire_utils.py", "find_best_audit", ["C04", "C15"]),
    ("shangrla/raire/raire_utils.py", "manage_node", ["C04", "C15"]),
    ("shangrla/raire/raire_utils.py", "perform_dive", ["C04", "C15"]),
    ("shangrla/raire/raire_utils.py", "RaireFrontier.insert_node", ["C04", "C15"]),
    ("shangrla/raire/raire_utils.py", "RaireFrontier.replace_descendents", ["C04", "C15"]),
    ("shangrla/raire/raire_utils.py", "load_contests_from_raire", ["C14"]),
    ("shangrla/raire/raire.py", "compute_raire_assertions", ["C04", "C15"]),
    ("shangrla/raire/sample_estimator.py", "bp_estimate", ["C15"]),
    ("shangrla/formats/Dominion.py", "Dominion.read_cvrs", ["C19"]),
    ("shangrla/formats/Dominion.py", "Dominion.prep_manifest", ["C17"]),
    ("shangrla/formats/Dominion.py", "Dominion.sample_from_manifest", ["C17"]),
    ("shangrla/formats/Dominion.py", "Dominion.sample_from_cvrs", ["C17"]),
    ("shangrla/formats/Hart.py", "Hart.prep_manifest", ["C17"]),
    ("shangrla/formats/Hart.py", "Hart.sample_from_manifest", ["C17"]),
    ("shangrla/core/IRVVisualisationUtils.py", "buildRemainingTreeAsLists", ["C20"]),
    ("shangrla/core/IRVVisualisationUtils.py", "treeListToTuple", ["C20"]),
]
CMP = {ast.Lt: ast.LtE, ast.LtE: ast.Lt, ast.Gt: ast.GtE, ast.GtE: ast.Gt, ast.Eq: ast.NotEq, ast.NotEq: ast.Eq,
       ast.In: ast.NotIn, ast.NotIn: ast.In, ast.Is: ast.IsNot, ast.IsNot: ast.Is}
BIN = {ast.Add: ast.Sub, ast.Sub: ast.Add, ast.Mult: ast.Div, ast.Div: ast.Mult}
NAMES = {"minimum": "maximum", "maximum": "minimum", "min": "max", "max": "min", "cumsum": "cumprod", "cumprod": "cumsum",
         "any": "all", "all": "any", "tile": "repeat"}


def find_fn(tree, qual):
    parts = qual.split(".")
    body = tree.body
    node = None
    for p in parts:
        node = next(n for n in body if isinstance(n, (ast.FunctionDef, ast.ClassDef)) and n.name == p)
        body = node.body
    return node


def sites(fn):
    out = []
    for n in ast.walk(fn):
        if isinstance(n, ast.Compare):
            for k, op in enumerate(n.ops):
                if type(op) in CMP:
                    out.append(("cmp", n, k))
        elif isinstance(n, ast.BoolOp):
            out.append(("bool", n, 0))
        elif isinstance(n, ast.BinOp) and type(n.op) in BIN:
            out.append(("bin", n, 0))
        elif isinstance(n, ast.Constant) and isinstance(n.value, int) and not isinstance(n.value, bool) and n.value in (0, 1, 2):
            out.append(("const", n, 0))
        elif isinstance(n, ast.UnaryOp) and isinstance(n.op, ast.Not):
            out.append(("not", n, 0))
        elif isinstance(n, ast.Attribute) and n.attr in NAMES:
            out.append(("attr", n, 0))
        elif isinstance(n, ast.Name) and n.id in NAMES and isinstance(n.ctx, ast.Load):
            out.append(("name", n, 0))
        elif isinstance(n, ast.IfExp):
            out.append(("ifexp", n, 0))
    return out


def apply(kind, n, k):
    if kind == "cmp":
        n.ops[k] = CMP[type(n.ops[k])]()
    elif kind == "bool":
        n.op = ast.Or() if isinstance(n.op, ast.And) else ast.And()
    elif kind == "bin":
        n.op = BIN[type(n.op)]()
    elif kind == "const":
        n.value = {0: 1, 1: 0, 2: 1}[n.value]
    elif kind == "not":
        n.op = ast.UAdd()          # `not x` -> `+x` keeps truthiness of x (drops the negation) for bool/int operands
    elif kind == "attr":
        n.attr = NAMES[n.attr]
    elif kind == "name":
        n.id = NAMES[n.id]
    elif kind == "ifexp":
        n.body, n.orelse = n.orelse, n.body


def mutants(path, qual, limit, rng):
    src = open(os.path.join(REPO, path)).read()
    tree = ast.parse(src)
    fn = find_fn(tree, qual)
    ss = sites(fn)
    idx = list(range(len(ss)))
    rng.shuffle(idx)
    out = []
    for i in idx[:limit]:
        t2 = ast.parse(src)
        f2 = find_fn(t2, qual)
        kind, n, k = sites(f2)[i]
        desc = f"{kind}@L{getattr(n, 'lineno', '?')}: {ast.unparse(n)[:70]}"
        apply(kind, n, k)
        desc += "  ->  " + ast.unparse(n)[:70]
        lines = src.split("\n")
        new_fn_src = ast.unparse(f2)
        indent = " " * f2.col_offset
        start = (f2.decorator_list[0].lineno if f2.decorator_list else f2.lineno) - 1
        new_lines = lines[:start] + [indent + l if l else l for l in new_fn_src.split("\n")] + lines[f2.end_lineno:]
        out.append((desc, "\n".join(new_lines)))
    return out


def run_one(job):
    wid, path, qual, props, desc, text = job
    wt = f"/tmp/w/mw{wid}"
    subprocess.run(["git", "-C", wt, "checkout", "-q", "--", "."], check=True)
    open(os.path.join(wt, path), "w").write(text)
    env = dict(os.environ, PYTHONPATH=wt)
    p = subprocess.run(["/venv/bin/python", "-m", "pytest", "-q", "-x", "-p", "no:cacheprovider"], cwd=wt, env=env, capture_output=True, text=True)
    tail = p.stdout.strip().split("\n")[-1] if p.stdout.strip() else ""
    rec = {"file": path, "function": qual, "mutation": desc, "tests": tail}
    if "55 passed" not in tail:
        rec["verdict"] = "killed-by-tests"
        subprocess.run(["git", "-C", wt, "checkout", "-q", "--", "."])
        return rec
    rec["checks"] = {}
    detected = False
    for prop in props:
        q = subprocess.run(["python3-vt", "/verif/checks/check.py", prop, "--tier", "quick"], capture_output=True, text=True,
                           env=dict(os.environ, SHANGRLA_REPO=wt, PYVC_NO_EVIDENCE="1", PYVC_REPLAY_DIR=f"/tmp/w/replays{wid}"), cwd="/verif")
        lines = [l for l in q.stdout.split("\n") if l.startswith(("VIOLATION", "UNDECIDED", "ENGINE"))]
        rec["checks"][prop] = {"rc": q.returncode, "lines": [l[:160] for l in lines[:3]]}
        if q.returncode == 1:
            detected = True
            break
    rec["verdict"] = "detected" if detected else "survived"
    subprocess.run(["git", "-C", wt, "checkout", "-q", "--", "."])
    return rec


def main():
    out, limit, workers = sys.argv[1], int(sys.argv[2]) if len(sys.argv) > 2 else 4, int(sys.argv[3]) if len(sys.argv) > 3 else 6
    rng = random.Random(int(os.environ.get("VERIF_SEED", "0")))
    for w in range(workers):
        wt = f"/tmp/w/mw{w}"
        if not os.path.exists(wt):
            subprocess.run(["git", "-C", REPO, "worktree", "add", "-q", "--detach", wt, "HEAD"], check=True)
    jobs = []
    for path, qual, props in TARGETS:
        try:
            for desc, text in mutants(path, qual, limit, rng):
                jobs.append([None, path, qual, props, desc, text])
        except StopIteration:
            print("function not found", qual)
    print(len(jobs), "mutants")
    # static assignment of jobs to worker dirs: one thread per worker processes its own queue
    queues = [[] for _ in range(workers)]
    for i, j in enumerate(jobs):
        j[0] = i % workers
        queues[i % workers].append(j)
    with open(out, "w") as fh, cf.ThreadPoolExecutor(workers) as ex:
        def work(q):
            res = []
            for j in q:
                r = run_one(j)
                res.append(r)
                with open(out + ".progress", "a") as ph:
                    ph.write(json.dumps(r) + "\n")
            return res
        for res in ex.map(work, queues):
            for r in res:
                fh.write(json.dumps(r) + "\n")
    for w in range(workers):
        subprocess.run(["git", "-C", REPO, "worktree", "remove", "--force", f"/tmp/w/mw{w}"])


if __name__ == "__main__":
    main()
