#!/bin/bash
# runs every semantics-preserving refactoring of harmless/<set>/hNN.diff through the quick checks of the properties its
# functions are anchored in, on a scratch worktree of /repo's HEAD (removed afterwards).  Every line must read
# "0 violation(s) ... 0 undecided, 0 engine error(s)".   usage: tools/run_harmless.sh [out-file]
out=${1:-/verif/harmless/RESULTS.txt}
wt=$(mktemp -d /tmp/harmless-wt.XXXXXX); rmdir $wt
git -C /repo worktree add --detach -q $wt HEAD || exit 9
declare -A PROPS=( [nonnegmean]="C01 C05 C11 C12 C13 C16" [audit]="C02 C03 C06 C07 C08 C09 C10 C16 C18" [raire_formats]="C04 C14 C15 C17 C18 C19 C20" )
: > $out
for set in ${HARMLESS_SETS:-nonnegmean audit raire_formats core2 raire_formats2 wave3 wave4}; do
  for f in /verif/harmless/$set/h*.diff; do
    n=$(basename $f .diff)
    git -C $wt checkout -q -- . ; git -C $wt apply --whitespace=nowarn $f || { echo "$set/$n APPLY-FAIL" >> $out; continue; }
    props=${PROPS[$set]}
    # second-wave sets list the properties each refactored function is anchored in (props.txt: "hNN: Cxx Cyy")
    [ -f /verif/harmless/$set/props.txt ] && props=$(grep "^$n:" /verif/harmless/$set/props.txt | cut -d: -f2)
    for p in $props; do
      res=$(cd /verif && SHANGRLA_REPO=$wt PYVC_NO_EVIDENCE=1 PYVC_REPLAY_DIR=/verif/replays/tmp-harmless python3-vt checks/check.py $p --tier quick 2>&1 | grep -E "VIOLATION|UNDECIDED|ENGINE|SKIPPED|obligations" | cut -c1-220 | tr '\n' '|')
      echo "$set/$n $p $res" >> $out
    done
  done
done
git -C /repo worktree remove --force $wt
echo "alarms: $(grep -c -E 'VIOLATION|UNDECIDED|ENGINE|APPLY-FAIL' $out)" >> $out
