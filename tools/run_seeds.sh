#!/bin/bash
# runs every seeded change through the quick check of the property it breaks (applied to /repo, undone afterwards)
out=${1:-/verif/seeded/RESULTS.txt}
: > $out
for d in /verif/seeded/C*/; do
  n=$(basename $d); p=${n:0:3}
  git -C /repo checkout -q -- . ; git -C /repo apply $d/patch.diff || { echo "$n APPLY-FAIL" >> $out; continue; }
  t0=$(date +%s)
  res=$(cd /verif && PYVC_NO_EVIDENCE=1 PYVC_REPLAY_DIR=${SEED_REPLAY_DIR:-/verif/replays/tmp-seeds} python3-vt checks/check.py $p --tier quick 2>&1 | grep -E "VIOLATION|UNDECIDED|ENGINE|obligations" | cut -c1-200 | tr '\n' '|')
  rc=$?
  git -C /repo checkout -q -- .
  echo "$n [$(( $(date +%s) - t0 ))s] $res" >> $out
done
git -C /repo status --short >> $out
