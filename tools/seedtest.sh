#!/bin/bash
# usage: tools/seedtest.sh <patch.diff> <PROP> [more props]   -- applies the patch to /repo, runs the quick checks, undoes it
patch=$1; shift
git -C /repo apply "$patch" || exit 9
for p in "$@"; do
  PYVC_NO_EVIDENCE=1 PYVC_REPLAY_DIR=${SEED_REPLAY_DIR:-/verif/replays/tmp-seeds} python3-vt /verif/checks/check.py $p --tier quick 2>&1 | grep -E "VIOLATION|KNOWN|UNDECIDED|ENGINE|obligations" | cut -c1-260
  echo "rc[$p]=${PIPESTATUS[0]}"
done
git -C /repo checkout -- .
