#!/usr/bin/env python3
"""timing survey: runs every quick-tier proof script exactly as check.py does (fresh interpreter, --job) and lists slow / non-proved obligations"""
import sys, os, json, subprocess, concurrent.futures as cf
ROOT = os.path.dirname(os.path.dirname(os.path.abspath(__file__)))
sys.path.insert(0, ROOT); sys.path.insert(0, os.path.join(ROOT, "checks"))
import check
sel = sys.argv[1] if len(sys.argv) > 1 else ""
thr = float(sys.argv[2]) if len(sys.argv) > 2 else 1.5
def one(name):
    p = subprocess.run([sys.executable, os.path.join(ROOT, "checks", "check.py"), "--job", json.dumps([name, "quick", check.REPO])], capture_output=True, text=True)
    try:
        return json.loads(p.stdout[p.stdout.index("@@JOB@@") + 7:])
    except Exception:
        return {"script": name, "results": [], "error": p.stderr[-300:], "total_wall": 0, "wall": 0}
names = [d["name"] for d in check.load_scripts() if sel in d["name"] and not d.get("thorough_only")]
with cf.ThreadPoolExecutor(8) as ex:
    for o in ex.map(one, names):
        slow = [r for r in o["results"] if r["secs"] > thr or (r["status"] != "proved" and not r.get("known_id"))]
        if slow or o.get("error") or o["total_wall"] > 20:
            print("%-80s wall %6.1f total %6.1f %s" % (o["script"][:80], o.get("wall", 0), o["total_wall"], o.get("error") or ""))
            for r in slow[:5]:
                print("      %-70s %-8s %-18s %.1f" % (r["clause"][:70], r["status"], r["backend"], r["secs"]))
print("surveyed", len(names))
